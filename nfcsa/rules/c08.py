# -*- coding: utf-8 -*-
"""C08 -- activating and reading arbitrary tags terminates safely (structural clauses)."""
import ast

from ..model import norm, head, walk_no_nested, AnalysisError, FuncInfo, ClassInfo, enclosing_stmt, ancestors, live, last_live
from ..cfg import cfg_of
from ..resolve import Resolver, Ctx
from ..escape import Escape, fmt_chain, items_sorted
from ..q import NotConst, find, match, try_const, tests, calls, only_via, cfg_node_for, fmt
from ..core import key
from .c16 import BOUND, tag_classes, ASSERTS_OK, presence_check_item

EXPLANATION = (
    'R1 exception-escape analysis, rooted at every concrete tag class: nothing but IOError of a broken host link may leave '
    'nfc.tag.activate, Tag.ndef and the NDEF attributes has_changed / length / capacity / octets / is_readable / is_writeable '
    '-- in particular no TagCommandError (a failed read must surface as None); R2 in every _read_ndef_data the value that '
    'becomes the message length (TLV length, Ln, NLEN) is compared with, or clamped by, the data-area size / capacity before '
    'the message is accepted; R3 loop progress: every loop of the read path driven by tag data advances a position by at '
    'least one per cycle, consumes a bounded range, or leaves when a command returned no data; R4 buffer rules: tag controlled byte '
    'strings (ATS, ATTRIB / discovery responses, Type 3 response frames, ISO-DEP blocks, READ BINARY answers, control TLV values) are '
    'indexed, destructured or struct-unpacked only behind a length guard (lower bound dataflow, exact length for whole-buffer unpack) '
    'or inside a handler; unguarded reads are implicit raise sites fed to R1.  The number of commands for a '
    'given image and that all octets lie inside the area beyond the R2 necessary condition are not decided.')

NDEF_ATTRS = ('has_changed', 'length', 'capacity', 'octets', 'is_readable', 'is_writeable')


def mapping_total(prog, qname):
    f = prog.functions.get(qname)
    if f is None:
        return False
    from .c16 import error_mapping
    got, g = error_mapping(prog, f)
    return set(got) >= {'nfc.clf.TimeoutError', 'nfc.clf.TransmissionError', 'nfc.clf.ProtocolError'}


def rule_escape(report, prog, res):
    from . import c08buf
    implicit_sites = {}
    c08buf.run(report, prog, res, implicit_sites)
    report.stats['implicit_raise_sites'] = {q: [t.split(' [')[0] for n_, e, t in v] for q, v in sorted(implicit_sites.items())}

    def implicit(func, ctx):
        return implicit_sites.get(func.qname, [])
    bad = {}
    n = 0
    n_sites = [0]
    for c in tag_classes(prog):
        ndef_cls = None
        for k in prog.mro(c):
            if isinstance(k, ClassInfo) and 'NDEF' in k.nested:
                ndef_cls = k.nested['NDEF']
                break
        ents = [('ndef', prog.lookup(c, 'ndef'), Ctx(c))]
        for a in NDEF_ATTRS:
            ents.append(('ndef.' + a, prog.lookup(ndef_cls, a), Ctx(ndef_cls, c)))
        for name, f, ctx in ents:
            n += 1
            esc = Escape(prog, res, boundaries=BOUND, implicit=implicit)
            for it in items_sorted(esc.esc(f, ctx)):
                if it.exc == 'OSError':
                    continue
                if it.origin == 'assert' and it.site_text in ASSERTS_OK:
                    continue
                if presence_check_item(it):
                    continue
                if it.exc == 'RuntimeError' and it.site_text == "raise RuntimeError('unexpected ' + repr(error))" and mapping_total(prog, it.site_func):
                    continue
                if prog.exc_is_sub(it.exc, 'nfc.tag.TagCommandError'):
                    # one obligation per unguarded call inside the NDEF reader, not per raise site below it
                    fr = [x for x in it.chain if '.NDEF.' in x.split(': ')[0]]
                    where = fr[-1].split(' ', 1)[1] if fr else it.site_func
                    bad.setdefault((it.exc.split('.')[-1], 'unguarded in', where), []).append(('%s.%s' % (c.name, name), it, f))
                    continue
                bad.setdefault((it.exc, it.site_func, it.site_text.split(' [')[0]), []).append(('%s.%s' % (c.name, name), it, f))
            report.ok('C08-R1', key(c.qname, name, 'remaining raise paths end in None / a value'), f.loc())
        # every call inside the NDEF reader methods, one by one (the witness chain of an item shows one path only; a call whose
        # TagCommandError reaches the same raise site as another call must not hide behind it)
        nctx = Ctx(ndef_cls, c)
        esc = Escape(prog, res, boundaries=BOUND, implicit=implicit)
        root = prog.lookup(ndef_cls, '_read_ndef_data')
        work, seen_f = [root] if isinstance(root, FuncInfo) else [], set()
        while work:
            mf = work.pop()
            if mf.qname in seen_f:
                continue
            seen_f.add(mf.qname)
            for x in walk_no_nested(mf.node):
                if not (isinstance(x, ast.Call) or (isinstance(x, ast.Subscript) and isinstance(x.ctx, ast.Load))):
                    continue
                leaking = [it for e, it in esc.of_stmt(mf, nctx, x).items()
                           if prog.exc_is_sub(it.exc, 'nfc.tag.TagCommandError') and not esc._handled_lexically(mf, x, it.exc)]
                if not leaking:
                    continue
                callee = None
                if isinstance(x, ast.Call) and isinstance(x.func, ast.Attribute) and norm(x.func.value) == 'self':
                    callee = prog.lookup(ndef_cls, x.func.attr)
                if isinstance(callee, FuncInfo) and '.NDEF.' in callee.qname:
                    work.append(callee)         # reported at the deepest NDEF method frame
                    continue
                for it in leaking:
                    n_sites[0] += 1
                    where = '%s: %s' % (mf.qname.replace('nfc.', '', 1), head(x))
                    bad.setdefault((it.exc.split('.')[-1], 'unguarded in', where), []).append(('%s.ndef' % c.name, it, mf))
    report.floor('C08-R1 entries', n, 200)
    # activation
    f = prog.func('nfc.tag.activate')
    esc = Escape(prog, res, boundaries=BOUND, implicit=implicit)
    for it in items_sorted(esc.esc(f, Ctx(None))):
        if it.exc == 'OSError':
            continue
        bad.setdefault((it.exc, it.site_func, it.site_text.split(' [')[0]), []).append(('nfc.tag.activate', it, f))
    report.ok('C08-R1', key('nfc.tag.activate', 'remaining raise paths end in None / a tag'), f.loc(),
              detail='%d functions analysed' % len(esc.analysed))
    report.stats['activate_cone_functions'] = len(esc.analysed)
    report.stats['activate_unresolved_calls'] = sorted(set(t for ff, cc, t in esc.unresolved_sites
                                                         if not any(t.endswith(x) for x in ('.format', '.decode', '.upper', 'log.debug', 'log.warning', '.startswith', '.endswith', '.keys'))))
    for (exc, site_func, site_text), lst in sorted(bad.items()):
        ents = sorted(set(e for e, it, f in lst))
        it, f = lst[0][1], lst[0][2]
        if site_func == 'unguarded in':
            report.fail('C08-R1', key(exc, 'unguarded in', site_text), f.loc(),
                        '%s can leave %s%s because `%s` is not inside a handler for it: a failing command must make tag.ndef None, not raise'
                        % (exc, ', '.join(ents[:3]), ', ...' if len(ents) > 3 else '', site_text), fmt_chain(it))
            continue
        report.fail('C08-R1', key(exc, 'raised in ' + site_func, site_text), f.loc(),
                    '%s raised in %s (%s) can leave %s%s: a tag must only be able to make these calls return None'
                    % (exc, site_func.replace('nfc.tag.', ''), site_text, ', '.join(ents[:3]), ', ...' if len(ents) > 3 else ''), fmt_chain(it))
    # Tag.ndef / has_changed shape: None on failed read
    t = prog.func('nfc.tag.Tag.ndef')
    okk = bool(find(t.node, 'ndef = self.NDEF(self)')) and any(isinstance(i, ast.If) and norm(i.test) == 'ndef.has_changed' and
                                                               [norm(s) for s in live(i.body)] == ['self._ndef = ndef'] for i in ast.walk(t.node))
    report.check(okk, 'C08-R1', key(t.qname, 'NDEF object is kept only if the first read succeeded'), t.loc(), 'Tag.ndef changed')
    h = prog.func('nfc.tag.Tag.NDEF.has_changed')
    okk = bool(find(h.node, 'ndef_data = self._read_ndef_data()')) and \
        any(isinstance(i, ast.If) and norm(i.test) == 'ndef_data is None' and [norm(s) for s in live(i.body)] == ['self._tag._ndef = None'] for i in ast.walk(h.node))
    report.check(okk, 'C08-R1', key(h.qname, 'a failed re-read resets tag.ndef to None'), h.loc(), 'has_changed changed')


def rule_length_vs_area(report, prog):
    specs = [
        ('nfc.tag.tt1.Type1Tag.NDEF._read_ndef_data', ('tlv_l', 'len(ndef)', 'len(tlv_v)'), ('tag_memory_size', 'self._capacity', 'capacity')),
        ('nfc.tag.tt2.Type2Tag.NDEF._read_ndef_data', ('tlv_l', 'len(ndef)', 'len(tlv_v)'), ('data_area_size', 'raw_capacity', 'self._capacity', 'capacity')),
        ('nfc.tag.tt3.Type3Tag.NDEF._read_ndef_data', ("attributes['ln']",), ("attributes['nmaxb']", 'self._capacity', 'self.capacity')),
        ('nfc.tag.tt4.Type4Tag.NDEF._read_ndef_data', ('nlen',), ('self._capacity', 'self.capacity', 'mfs')),
    ]
    for q, lengths, areas in specs:
        length = lengths[0]
        f = prog.func(q)
        found = None
        # the message value of the Type 1 / 2 readers is the value of the NDEF TLV: len(ndef) == tlv_l (read_tlv builds bytearray(tlv_l))
        if len(lengths) > 1:
            alias_ok = any(isinstance(st, ast.Assign) and norm(st.targets[0]) == 'ndef' and norm(st.value) == 'tlv_v' for st in ast.walk(f.node))
            if not alias_ok:
                lengths = lengths[:1]
        for i in ast.walk(f.node):
            # a refusing guard: `if <length> > <area>: return None / raise`
            if isinstance(i, ast.If) and live(i.body) and isinstance(last_live(i.body), (ast.Return, ast.Raise)):
                for e in ast.walk(i.test):
                    if isinstance(e, ast.Compare):
                        ops = [norm(e.left)] + [norm(c) for c in e.comparators]
                        if any(any(ln in o for ln in lengths) for o in ops) and any(any(a in o for a in areas) for o in ops):
                            found = norm(e)
            e = i
            if isinstance(e, ast.Call) and norm(e.func) == 'min' and any(any(ln in norm(a) for ln in lengths) for a in e.args) and \
                    any(any(ar in norm(a) for ar in areas) for a in e.args):
                found = norm(e)
        report.check(found is not None, 'C08-R2', key(q, 'declared length is checked against / clamped to the data area', length), f.loc(),
                     '%s accepts the tag supplied length %s without comparing it with the data area (%s): a tag whose memory extends '
                     'beyond the declared area yields a message with length > capacity' % (q.replace('nfc.tag.', ''), length, ' / '.join(areas[:2])),
                     detail=found)


def rule_tt4_addressing(report, prog, rule='C08-R2'):
    """Type 4 Tag: READ BINARY carries the file offset in P1 P2.  (a) the capacity the discovery derives from an arbitrary capability
    container leaves every message octet below the first offset the command as built cannot carry (C01-R6's clause, run here because a
    tag that announces more makes the reader raise struct.error); (b) the reader folded against a file that answers every offset, at
    the largest admissible capacity and with announced lengths at, above and far above it, hands only such offsets to READ BINARY,
    ends, and accepts no message longer than the capacity."""
    from . import c01, t4model
    c01.rule_tt4_layout(report, prog, rule=rule)
    f = prog.func('nfc.tag.tt4.Type4Tag.NDEF._read_ndef_data')
    problems, n = t4model.reader_offsets(prog)
    report.check(not problems, rule, key(f.qname, 'folded reader addresses only offsets READ BINARY can carry, ends, accepts at most capacity octets'), f.loc(),
                 '; '.join(problems[:3]), detail='folded for %d (NLEN width, capacity, announced length, MLe) points against a file that answers every offset' % n)


def rule_tlv_length_guard(report, prog, rule='C08-R2'):
    """Type 1 / Type 2 readers: the guard that compares the NDEF TLV value with the capacity is folded for message lengths 0, 1, 5 and
    capacities -2 .. 4 (the capacity is negative when the TLV sits on the last bytes of the data area): it refuses exactly when the
    message is longer than the capacity -- an empty message in an area that cannot even hold the TLV header included."""
    for mod in ('tt1', 'tt2'):
        q = 'nfc.tag.%s.Type%sTag.NDEF._read_ndef_data' % (mod, mod[2])
        f = prog.func(q)
        guard = None
        for i in ast.walk(f.node):
            if isinstance(i, ast.If) and live(i.body) and isinstance(last_live(i.body), (ast.Return, ast.Raise)) and \
                    any(isinstance(e, ast.Compare) and 'capacity' in norm(e) and 'len(' in norm(e) for e in ast.walk(i.test)):
                guard = i
        if guard is None:
            continue        # rule_length_vs_area reports the missing comparison
        names = sorted(set(x.id for x in ast.walk(guard.test) if isinstance(x, ast.Name) and x.id not in ('len', 'self')))
        bad = []
        for ln in (0, 1, 5):
            for cap in (-2, -1, 0, 1, 4):
                env = {'self._capacity': cap, 'self.capacity': cap, 'capacity': cap}
                for nme in names:
                    env.setdefault(nme, bytearray(ln))
                v = try_const(guard.test, env)
                if v is None:
                    bad.append('cannot fold `%s`' % norm(guard.test))
                    break
                if bool(v) != (ln > cap):
                    bad.append('message of %d octets, capacity %d: %s' % (ln, cap, 'refused' if v else 'accepted'))
        report.check(not bad, rule, key(q, 'the length guard refuses exactly the messages longer than the capacity (empty message, negative capacity included)'),
                     f.loc(guard), '%s: `%s` -- %s' % (q.replace('nfc.tag.', ''), norm(guard.test), '; '.join(bad[:3])))


def tag_cycles(prog, res, only=None):
    """Call cycles among the functions of nfc.tag reachable from the public operations of every concrete tag class (class-rooted
    resolution, so `self.m()` follows the override of that class).  -> (set of cycles as tuples of qualified names, functions visited)"""
    import sys
    from .c16 import public_api
    found, visited = set(), set()
    for c in tag_classes(prog):
        if only is not None and c.module.name != only:
            continue
        entries = [(f, Ctx(c)) for _, f in sorted(public_api(prog, c).items())]
        for k in prog.mro(c):
            if isinstance(k, ClassInfo) and 'NDEF' in k.nested:
                entries += [(f, Ctx(k.nested['NDEF'], c)) for _, f in sorted(public_api(prog, k.nested['NDEF']).items())]
                break
        edges, nodes, work = {}, {}, list(entries)
        while work:
            f, ctx = work.pop()
            k = (f.qname, ctx.key() if hasattr(ctx, 'key') else None)
            if k in nodes:
                continue
            nodes[k] = f
            outs = set()
            for call in ast.walk(f.node):
                if not isinstance(call, ast.Call):
                    continue
                try:
                    tg = res.callees(f, call, ctx, record=False)
                except Exception:
                    tg = []
                for t in tg:
                    if t.func is not None and t.func.qname.startswith('nfc.tag'):
                        c2 = t.ctx if t.ctx is not None else ctx
                        outs.add((t.func.qname, c2.key() if hasattr(c2, 'key') else None))
                        work.append((t.func, c2))
            edges[k] = outs
        visited.update(q for q, _ in nodes)
        color = {}
        for root in sorted(nodes, key=str):
            if root in color:
                continue
            stack = [(root, iter(sorted(edges.get(root, ()), key=str)))]
            path = [root]
            color[root] = 1
            while stack:
                u, it = stack[-1]
                v = next(it, None)
                if v is None:
                    color[u] = 2
                    stack.pop()
                    path.pop()
                    continue
                if color.get(v) == 1:
                    found.add(tuple(x[0] for x in path[path.index(v):]))
                elif v not in color:
                    color[v] = 1
                    path.append(v)
                    stack.append((v, iter(sorted(edges.get(v, ()), key=str))))
    return found, visited


def rule_no_recursion(report, prog, res, rule='C08-R3'):
    """A tag operation that can call itself again repeats as often as the tag makes it: every call cycle in the tag cone has to count
    down -- the recursive call passes `<parameter> - <positive constant>` and the function tests that parameter -- otherwise the
    number of commands (and the stack depth: RecursionError) is the tag's choice.  The clean tree has no cycle at all; the rule is
    seen to fire on an in-memory variant of Type4Tag.send_apdu that re-issues the command to itself (canary)."""
    cycles, visited = tag_cycles(prog, res)
    report.floor(rule + ' functions in the tag cone', len(visited), 150)
    for cyc in sorted(cycles):
        counted = False
        f = prog.functions.get(cyc[0])
        if len(cyc) == 1 and f is not None:
            for call in ast.walk(f.node):
                if isinstance(call, ast.Call) and norm(call.func).split('.')[-1] == f.name:
                    for a in list(call.args) + [k.value for k in call.keywords]:
                        if isinstance(a, ast.BinOp) and isinstance(a.op, ast.Sub) and isinstance(a.left, ast.Name) and a.left.id in f.params \
                                and isinstance(try_const(a.right), int) and try_const(a.right) > 0 and any(
                                    isinstance(t, ast.Compare) and a.left.id in [x.id for x in ast.walk(t) if isinstance(x, ast.Name)] for t in ast.walk(f.node)):
                            counted = True
        report.check(counted, rule, key(' -> '.join(cyc), 'call cycle in the tag cone counts down'), f.loc() if f is not None else None,
                     'call cycle %s: nothing bounds how often a tag can make the reader go round it (unbounded commands, RecursionError out of tag.ndef)'
                     % ' -> '.join(cyc + (cyc[0],)))
    report.ok(rule, key('nfc.tag', 'every call cycle reachable from a tag operation counts down'), None,
              detail='%d functions of nfc.tag visited from the public operations of every tag class, %d cycles' % (len(visited), len(cycles)))
    # canary: the same search on an in-memory variant of nfc.tag.tt4 with one more tag class whose operation calls itself
    m = prog.modules['nfc.tag.tt4']
    from ..model import Program
    extra = '\n\nclass CanaryTag(Type4Tag):\n    def probe(self, n):\n        return self.probe(n)\n\n    def plain(self, n):\n        return n\n'
    variant = Program(src=prog.src, overrides={'nfc.tag.tt4': m.source + extra})
    vc, _ = tag_cycles(variant, Resolver(variant), only='nfc.tag.tt4')
    report.canary('C08-R3 recursion canary', ('nfc.tag.tt4.CanaryTag.probe',) in vc and not any('plain' in q for c_ in vc for q in c_))


def rule_progress(report, prog):
    n = 0
    # TLV walks: offset advances by tlv_l + 1 + (1|3) >= 1 on every cycle that does not leave the loop
    for q in ('nfc.tag.tt1.Type1Tag.NDEF._read_ndef_data', 'nfc.tag.tt2.Type2Tag.NDEF._read_ndef_data', 'nfc.tag.tt2.Type2Tag._protect'):
        f = prog.func(q)
        cfg = cfg_of(f)
        loops = [l for l in walk_no_nested(f.node) if isinstance(l, ast.While) and norm(l.test).startswith('offset <')]
        for lp in loops:
            n += 1
            adv = [x for x in cfg.nodes if x.kind == 'stmt' and isinstance(x.ast, ast.AugAssign) and norm(x.ast.target) == 'offset'
                   and any(a is lp for a in ancestors(x.ast))]
            head_ = cfg.node_of(lp)
            inside = set(cfg.nodes_in(lp)) | {head_}
            outside = [x for x in cfg.nodes if x not in inside]
            first = [m for m, l in head_.succ]
            cyc = set()
            for m in first:
                cyc |= cfg.reachable(m, avoid_nodes=adv + outside)
            okk = head_ not in cyc and bool(adv)
            report.check(okk, 'C08-R3', key(q, 'every cycle of the TLV walk advances offset', lp.test), f.loc(lp),
                         'a cycle of the TLV walk does not advance the offset (a tag image can keep the reader in the loop)')
            amounts = sorted(set(norm(x.ast.value) for x in adv))
            report.check(set(amounts) <= {'1', 'tlv_l + 1 + (1 if tlv_l < 255 else 3)'}, 'C08-R3',
                         key(q, 'advance is 1 or tlv_l + 1 + (1|3) with tlv_l >= -1', lp.test), f.loc(lp), 'offset advance changed: %s' % amounts)
    for mod in ('nfc.tag.tt1', 'nfc.tag.tt2'):
        r = prog.func(mod + '.read_tlv')
        okk = any(isinstance(x, ast.Return) and norm(x.value) == '(tlv_t, -1, None)' for x in walk_no_nested(r.node)) and \
            any(isinstance(l, ast.For) and norm(l.iter) == 'range(tlv_l)' for l in walk_no_nested(r.node))
        n += 1
        report.check(okk, 'C08-R3', key(r.qname, 'NULL/terminator TLV has length -1; value loop is bounded by the 16 bit length'), r.loc(),
                     'read_tlv loop shape changed')
        inner = [l for l in ast.walk(r.node) if isinstance(l, ast.While)]
        okk = len(inner) == 1 and norm(inner[0].test) == 'offset + i in skip_bytes' and [norm(s) for s in live(inner[0].body)] == ['offset += 1']
        report.check(okk, 'C08-R3', key(r.qname, 'skip loop terminates (finite skip set, offset strictly increases)'), r.loc(), 'skip loop changed')
    # memory readers: every cycle extends the image or raises
    g = prog.func('nfc.tag.tt2.Type2TagMemoryReader._read_from_tag')
    # (canonical loop form: `i = A; while i < B: ...; i += C` and `for i in range(A, B, C)` are both the for form)
    okk = any(isinstance(l, ast.For) and isinstance(l.iter, ast.Call) and norm(l.iter.func) == 'range' and len(l.iter.args) == 3 and
              norm(l.iter.args[1]) == 'stop' and try_const(l.iter.args[2]) == 16 for l in walk_no_nested(g.node))
    n += 1
    report.check(okk, 'C08-R3', key(g.qname, 'reads 16 byte per cycle until stop'), g.loc(), 'Type 2 memory read loop changed')
    g = prog.func('nfc.tag.tt1.Type1TagMemoryReader._read_from_tag')
    # progress argument: the loop runs while len(self) < stop and every cycle either raises or extends the image by the segment read
    # (guards that only raise may precede the read)
    def _t1_cycle(l):
        body = [st for st in live(l.body) if not (isinstance(st, ast.If) and not st.orelse and isinstance(last_live(st.body), ast.Raise))]
        return [norm(x) for x in body] == ['data = self._tag.read_segment(len(self) >> 7)', 'self._data_from_tag.extend(data)', 'self._data_in_cache.extend(data)']
    okk = any(isinstance(l, ast.While) and norm(l.test) == 'len(self) < stop' and _t1_cycle(l) for l in walk_no_nested(g.node))
    rs = prog.func('nfc.tag.tt1.Type1Tag.read_segment')
    okk = okk and any(norm(e) == 'len(rsp) < 129' for e in ast.walk(rs.node) if isinstance(e, ast.Compare)) and bool(find(rs.node, 'return rsp[1:129]'))
    n += 1
    report.check(okk, 'C08-R3', key(g.qname, 'every cycle appends a full 128 byte segment or raises'), g.loc(), 'Type 1 memory read loop changed')
    # slices use key.indices(0x100000): bounded
    for q in ('nfc.tag.tt1.Type1TagMemoryReader.__getitem__', 'nfc.tag.tt2.Type2TagMemoryReader.__getitem__'):
        g = prog.func(q)
        report.check(bool(find(g.node, 'start, stop, step = key.indices(1048576)')), 'C08-R3', key(q, 'slice reads are bounded to 1 MiB'), g.loc(),
                     'slice bound changed')
    # Type 3: block loop bounded by Ln, stride Nbr must be positive
    t3 = prog.func('nfc.tag.tt3.Type3Tag.NDEF._read_ndef_data')
    cfg = cfg_of(t3)
    def _block_step(fn, attr):
        """(loop, bound, operands): the batching loop whose stride is attributes[attr] or a local bound once to it / to min(...) with
        it among the arguments; bound = smallest constant argument of the min(), operands = texts of the non-constant arguments."""
        for l in walk_no_nested(fn.node):
            if not (isinstance(l, ast.For) and isinstance(l.iter, ast.Call) and norm(l.iter.func) == 'range' and len(l.iter.args) == 3):
                continue
            st_ = l.iter.args[2]
            want = "attributes['%s']" % attr
            if norm(st_) == want:
                return l, None, [want]
            if isinstance(st_, ast.Name):
                binds = [a for a in walk_no_nested(fn.node) if isinstance(a, ast.Assign) and any(norm(t) == st_.id for t in a.targets)]
                if len(binds) == 1 and want in norm(binds[0].value):
                    v = binds[0].value
                    if isinstance(v, ast.Call) and norm(v.func) == 'min' and any(norm(a) == want for a in v.args):
                        ks = [try_const(a) for a in v.args if isinstance(try_const(a), int)]
                        return l, (min(ks) if ks else None), [norm(a) for a in v.args if not isinstance(try_const(a), int)]
                    if norm(v) == want:
                        return l, None, [want]
        return None, None, []
    # one command moves at most 15 (read) / 13 (write) blocks -- the length octet of a frame is one byte; the count the tag
    # announces in its attribute block is cut to that before it sizes a command (else bytearray() raises ValueError)
    # (decided by folding the reader / writer over Nbr / Nbw 1..20 and message lengths with the tag commands modelled, rules/t3model.py;
    # the shape based reading of the loop below is the fall-back when the evaluator cannot fold the function)
    from . import t3model
    folded = {'_read_ndef_data': t3model.read_verdicts(prog), '_write_ndef_data': t3model.write_verdicts(prog)}
    zero = t3model.zero_stride(prog)
    for fname, attr, limit in (('_read_ndef_data', 'nbr', 15), ('_write_ndef_data', 'nbw', 12)):
        fn = prog.func('nfc.tag.tt3.Type3Tag.NDEF.' + fname)
        if not any('cannot fold' in v_ for v_ in folded[fname]):
            n += 1
            over = [v_ for v_ in folded[fname] if 'a command addresses' in v_ or 'needs a frame of' in v_]
            report.check(not over, 'C08-R3', key(fn.qname, 'blocks per command cut to what one frame can carry'), fn.loc(),
                         'the number of blocks per command is not cut to %d: %s (the command length octet overflows, ValueError out of tag.ndef)'
                         % (limit, '; '.join(over[:2])))
            continue
        l_, bound, _ops = _block_step(fn, attr)
        n += 1
        report.check(l_ is not None and bound is not None and 1 <= bound <= limit, 'C08-R3',
                     key(fn.qname, 'blocks per command cut to what one frame can carry'), fn.loc(l_) if l_ is not None else fn.loc(),
                     'the number of blocks per command comes from the attribute block (%s) without an upper bound: %d and more blocks make the '
                     'command length octet overflow (ValueError out of tag.ndef)' % (attr, 121))
    l3, b3, ops3 = _block_step(t3, 'nbr')
    n += 1
    if zero is None or 'cannot fold' not in zero:
        report.check(zero is None, 'C08-R3', key(t3.qname, 'block loop stride Nbr is tested to be positive'), t3.loc(),
                     'the block loop uses a tag supplied Nbr as range() step without testing it: an attribute block in which it is 0 (valid '
                     'checksum): %s' % zero)
    elif l3 is not None:
        node = [x for x in cfg.nodes if x.kind == 'stmt' and x.ast is l3.iter]
        # the stride is positive: every tag supplied operand of it is tested (refusing `== 0` / `< 1`, or `> 0` passed) on all paths
        # to the loop, and a constant operand is at least 1
        problems = [] if (b3 is None or b3 >= 1) else ['constant stride bound %r' % b3]
        for op_ in ops3:
            guards = [(t, lab) for e, t in cfg.test_nodes.items() for lab in ('true', 'false')
                      if isinstance(e, ast.Compare) and norm(e.left) == op_
                      and ((isinstance(e.ops[0], (ast.Gt, ast.NotEq)) and lab == 'true' and try_const(e.comparators[0]) == 0)
                           or (isinstance(e.ops[0], ast.GtE) and lab == 'true' and try_const(e.comparators[0]) == 1)
                           or (isinstance(e.ops[0], ast.Eq) and lab == 'false' and try_const(e.comparators[0]) == 0)
                           or (isinstance(e.ops[0], ast.Lt) and lab == 'false' and try_const(e.comparators[0]) == 1)
                           or (isinstance(e.ops[0], ast.LtE) and lab == 'false' and try_const(e.comparators[0]) == 0))]
            if not (node and guards and only_via(cfg, node[0], guards, ps=False)[0]):
                problems.append(op_)
        report.check(not problems, 'C08-R3', key(t3.qname, 'block loop stride Nbr is tested to be positive'), t3.loc(l3),
                     'the block loop uses a tag supplied value (%s) as range() step without testing it: an attribute block in which it is 0 (valid '
                     'checksum) makes range() raise ValueError out of tag.ndef' % ', '.join(problems))
    else:
        report.fail('C08-R3', key(t3.qname, 'block loop'), t3.loc(), 'Type 3 block loop not found')
    # Type 4: read loop must leave when READ BINARY returned nothing
    t4 = prog.func('nfc.tag.tt4.Type4Tag.NDEF._read_ndef_data')
    lp = [l for l in walk_no_nested(t4.node) if isinstance(l, ast.While) and norm(l.test) == 'len(data) < nlen']
    n += 1
    if lp:
        body = lp[0]
        leaves = any(isinstance(i, ast.If) and any(isinstance(s, (ast.Return, ast.Break, ast.Raise)) for s in i.body) and
                     ('len(' in norm(i.test) or 'not ' in norm(i.test)) for i in ast.walk(body))
        report.check(leaves, 'C08-R3', key(t4.qname, 'read loop leaves when READ BINARY returned no data'), t4.loc(body),
                     'the NDEF read loop `while len(data) < nlen` makes no progress when READ BINARY answers 9000 without data: the reader '
                     'sends the same command forever')
    else:
        report.fail('C08-R3', key(t4.qname, 'read loop'), t4.loc(), 'Type 4 read loop not found')
    # the memory readers hand out bytes they have read or raise: the fill loops swallow no command error (the TLV parser and the
    # NDEF readers index and unpack the result on that promise, guarded only against TagCommandError)
    for q in ('nfc.tag.tt2.Type2TagMemoryReader._read_from_tag', 'nfc.tag.tt1.Type1TagMemoryReader._read_from_tag'):
        g = prog.functions.get(q)
        if g is None:
            continue
        n += 1
        swallow = [h for t in ast.walk(g.node) if isinstance(t, ast.Try) for h in t.handlers
                   if not (isinstance(last_live(h.body), ast.Raise) and not any(isinstance(x, (ast.Break, ast.Return, ast.Continue)) for x in ast.walk(h)))]
        report.check(not swallow, 'C08-R3', key(q, 'a failed read is never turned into a short memory image'), g.loc(swallow[0]) if swallow else g.loc(),
                     '%s handles a command error and carries on: __getitem__ then indexes a cache that is shorter than the requested range '
                     '(IndexError / struct.error out of tag.ndef)' % q)
    report.floor('C08-R3', n, 9)


def rule_result_arity(report, prog, res):
    """R5 (result shapes): Type3Tag.polling() answers with (IDm, PMm) or (IDm, PMm, info) depending on what the tag sent.  Callers
    that destructure into two names rely on the length test tying the response length to the request code: the tail of polling()
    is folded for every request code and response length 0..40 -- with request code 0 only a pair may come back -- and every
    destructuring call site is compared with that arity."""
    from ..q import fold_block
    f = prog.func('nfc.tag.tt3.Type3Tag.polling')
    body = live(f.node.body)
    start = [i for i, st in enumerate(body) if isinstance(st, ast.Assign) and 'self.send_cmd_recv_rsp(' in norm(st.value)]
    if not start:
        raise AnalysisError('C08-R5: polling(): command exchange not found')
    tail = body[start[-1] + 1:]
    arity = {}
    bad = []
    for rc in (0, 1, 2):
        for n_ in range(0, 41):
            env = {'request_code': rc, 'data': bytearray(n_), 'system_code': 0x12FC, 'time_slots': 0}
            try:
                r = fold_block(tail, env)
            except NotConst as e:
                bad.append('cannot fold the tail of polling() (%s)' % e)
                break
            if r[0] == 'return':
                arity.setdefault(rc, set()).add(len(r[1]) if isinstance(r[1], tuple) else None)
        if bad:
            break
    report.check(not bad and arity.get(0) == {2} and arity.get(1) == {3} and arity.get(2) == {3}, 'C08-R4',
                 key(f.qname, 'request code 0 yields (IDm, PMm), request codes 1 / 2 yield (IDm, PMm, info), whatever the tag sends'), f.loc(),
                 'polling(): %s' % (bad[0] if bad else 'result arity by request code is %r: a tag that answers with another length makes the '
                                    'two-name destructuring of the callers raise ValueError' % {k: sorted(v, key=str) for k, v in arity.items()}))
    n = 0
    for q, g in sorted(prog.functions.items()):
        if not q.startswith('nfc.tag.'):
            continue
        for st in walk_no_nested(g.node):
            if isinstance(st, ast.Assign) and isinstance(st.value, ast.Call) and isinstance(st.value.func, ast.Attribute) and \
                    st.value.func.attr == 'polling' and isinstance(st.targets[0], ast.Tuple) and 'Emulation' not in q:
                n += 1
                kw = {k.arg: k.value for k in st.value.keywords}
                rc = kw.get('request_code', st.value.args[1] if len(st.value.args) > 1 else None)
                rcv = 0 if rc is None else try_const(rc)
                want = {0: 2, 1: 3, 2: 3}.get(rcv)
                report.check(want == len(st.targets[0].elts), 'C08-R5', key(q, 'destructuring matches the arity polling() returns for the request code', st),
                             g.loc(st), '%s unpacks the polling result into %d names but request code %r yields %s values'
                             % (q, len(st.targets[0].elts), rcv, want))
    report.floor('C08-R5 polling call sites', n, 3)


def rule_dispatch_tables(report, prog):
    """R5 (activation dispatch): a table that maps what the tag answered to the class that is then constructed: every class in the
    table can be constructed with the arguments of the dispatching call (`TABLE[key](clf, target)`), else the tag's answer decides
    whether activation ends in TypeError."""
    n = 0
    for q, g in sorted(prog.functions.items()):
        if not q.startswith('nfc.tag.'):
            continue
        for c in walk_no_nested(g.node):
            if not (isinstance(c, ast.Call) and isinstance(c.func, ast.Subscript) and isinstance(c.func.value, ast.Name)):
                continue
            tab = prog.module_attr(g.module.name, c.func.value.id)
            val = tab[1] if isinstance(tab, tuple) and tab[0] == 'expr' else None
            if not isinstance(val, ast.Dict):
                continue
            nargs = len(c.args)
            kws = set(k.arg for k in c.keywords if k.arg)
            for v in val.values:
                r = prog.resolve_expr(g.module, v)
                cls = r[1] if r is not None and r[0] == 'class' else None
                if cls is None:
                    continue
                n += 1
                init = prog.lookup(cls, '__init__')
                okk = True
                why = ''
                if isinstance(init, FuncInfo):
                    a = init.node.args
                    pos = [x.arg for x in a.posonlyargs + a.args][1:]
                    required = len(pos) - len(a.defaults)
                    given = nargs + len([k for k in kws if k in pos])
                    if a.vararg is None and nargs > len(pos):
                        okk, why = False, 'takes %d arguments, %d given' % (len(pos), nargs)
                    elif given < required and not all(p_ in kws for p_ in pos[nargs:required]):
                        okk, why = False, 'needs %s, %d given' % (', '.join(pos), nargs)
                report.check(okk, 'C08-R5', key(q, 'class %s of %s can be constructed by the dispatching call' % (cls.name, c.func.value.id)), g.loc(c),
                             '%s: %s maps an answer of the tag to %s whose __init__ %s: activation of such a tag raises TypeError'
                             % (q, c.func.value.id, cls.qname, why))
    report.floor('C08-R5 dispatch table entries', n, 10)


def run(report, prog, tier):
    res = Resolver(prog)
    rule_escape(report, prog, res)
    rule_length_vs_area(report, prog)
    rule_tt4_addressing(report, prog)
    rule_tlv_length_guard(report, prog)
    rule_progress(report, prog)
    rule_no_recursion(report, prog, res)
    rule_result_arity(report, prog, res)
    rule_dispatch_tables(report, prog)
    report.trusted += ['interface summary of ContactlessFrontend.exchange / sense in reader mode (C13)',
                       'a TLV length is an unsigned 8/16 bit value or -1 for NULL/terminator TLVs']
    report.assumptions += ['implicit IndexError / struct.error on short responses are covered by the buffer rules where they exist; ISO-DEP loops are C12-R4']


from .. import triage   # noqa: E402

for _t in ("raise ValueError('invalid command data length')", "raise ValueError('invalid max response length')"):
    triage.add('C08', 'C08-R1', key('ValueError', 'raised in nfc.tag.tt4.Type4Tag.send_apdu', _t),
               'extended length APDUs are never enabled: _extended_length_support is set False by both constructors and assigned nowhere else',
               [('nfc.tag.tt4.Type4ATag.__init__', 'self._extended_length_support = False'),
                ('nfc.tag.tt4.Type4BTag.__init__', 'self._extended_length_support = False')])


triage.add('C08', 'C08-R1', key('struct.error', 'raised in nfc.tag.tt3.Type3Tag.__init__', "unpack('>H', target.sensf_res[17:19])"),
           'a well-framed SENSF_RES is 17 byte or, with the system code, 19 byte (NFC Digital 6.6): behind len(sensf_res) > 17 the slice holds 2 byte',
           [('nfc.tag.tt3.Type3Tag.__init__', lambda f: any(isinstance(i, ast.If) and norm(i.test) == 'len(target.sensf_res) > 17' and
                                                            any("target.sensf_res[17:19]" in norm(x) for x in i.body) for i in ast.walk(f.node)))])


from .c16 import _nlen_size_domain, NLEN_ANCHORS, NLEN_REASON   # noqa: E402
from .c12 import ISODEP_EMPTY_REASON, ISODEP_EMPTY_ANCHORS   # noqa: E402

triage.add('C08', 'C08-R1', key('struct.error', 'raised in nfc.tag.tt4.Type4Tag.NDEF._read_ndef_data', 'unpack(lfmt, nlen)'), NLEN_REASON, NLEN_ANCHORS)

triage.add('C08', 'C08-R1', key('IndexError', 'raised in nfc.tag.tt4.IsoDepInitiator.exchange', 'data[0] in `while data[0] & 16`'), ISODEP_EMPTY_REASON, ISODEP_EMPTY_ANCHORS)


from .c16 import SEGMENT_REASON, SEGMENT_ANCHORS, APDU_REASON, APDU_ANCHORS   # noqa: E402
triage.add('C08', 'C08-R1', key('ValueError', 'raised in nfc.tag.tt1.Type1Tag.read_segment', "raise ValueError('invalid segment number')"), SEGMENT_REASON, SEGMENT_ANCHORS)
triage.add('C08', 'C08-R1', key('ValueError', 'raised in nfc.tag.tt4.Type4Tag.send_apdu', "raise ValueError('unsupported command data length')"), APDU_REASON, APDU_ANCHORS)
triage.add('C08', 'C08-R1', key('ValueError', 'raised in nfc.tag.tt4.Type4Tag.send_apdu', "raise ValueError('unsupported max response length')"), APDU_REASON, APDU_ANCHORS)

MUTANTS = [
    ('tt4-send-apdu-recursion', 'nfc.tag.tt4', "        apdu = self.transceive(apdu)\n", "        apdu = self.transceive(apdu)\n        if len(apdu) == 2 and apdu[0] == 0x6C:\n            return self.send_apdu(cla, ins, p1, p2, data, apdu[1])\n", 'C08-R3'),
    ('tt2-length-guard-truthiness', 'nfc.tag.tt2', "if ndef is not None and len(ndef) > self._capacity:", "if ndef and len(ndef) > self._capacity:", 'C08-R2'),
    ('tt1-length-guard-off-by-one', 'nfc.tag.tt1', "if ndef is not None and len(ndef) > self._capacity:", "if ndef is not None and len(ndef) > self._capacity + 1:", 'C08-R2'),
    ('tt4-read-overlong-answer', 'nfc.tag.tt4', "data += part[:nlen-len(data)]", "data += part", 'C08-R2'),
    ('nxp-version-map-entry-with-other-signature', 'nfc.tag.tt2_nxp', '    b"\\x00\\x04\\x04\\x01\\x01\\x00\\x0B\\x03": NTAG210,', '    b"\\x00\\x04\\x04\\x01\\x01\\x00\\x0B\\x03": MifareUltralightEV1,', 'C08-R5'),
    ('tt3-polling-length-by-response-only', 'nfc.tag.tt3', "        if len(data) != (16 if request_code == 0 else 18):", "        if len(data) not in (16, 18):", 'C08-R5'),
    ('tt3-read-stride-unbounded', 'nfc.tag.tt3', "nbr = min(attributes['nbr'], 15)", "nbr = attributes['nbr']", 'C08-R3'),
    ('tt3-read-stride-second-operand-untested', 'nfc.tag.tt3', "nbr = min(attributes['nbr'], 15)", "nbr = min(attributes['nbr'], attributes['nmaxb'], 15)", 'C08-R3'),
    ('tt3-write-stride-unbounded', 'nfc.tag.tt3', "nbw = min(attributes['nbw'], 12)", "nbw = min(attributes['nbw'], 130)", 'C08-R3'),
    ('tt2-read-tlv-unguarded', 'nfc.tag.tt2', """                try:
                    tlv = read_tlv(tag_memory, offset, skip_bytes)
                    tlv_t, tlv_l, tlv_v = tlv
                except Type2TagCommandError:
                    return None
                else:
                    logmsg""", """                tlv = read_tlv(tag_memory, offset, skip_bytes)
                tlv_t, tlv_l, tlv_v = tlv
                if True:
                    logmsg""", 'C08-R1'),
    ('tt1-read-tlv-unguarded', 'nfc.tag.tt1', """                try:
                    tlv_t, tlv_l, tlv_v = read_tlv(
                        tag_memory, offset, skip_bytes)
                except Type1TagCommandError:
                    return None
""", """                tlv_t, tlv_l, tlv_v = read_tlv(tag_memory, offset, skip_bytes)
""", 'C08-R1'),
    ('tt2-cc-read-unguarded', 'nfc.tag.tt2', """            except Type2TagCommandError:
                log.debug("first four memory pages were unreadable")
                return False""", """            except KeyError:
                log.debug("first four memory pages were unreadable")
                return False""", 'C08-R1'),
    ('tt3-attribute-read-unguarded', 'nfc.tag.tt3', """            try:
                data = self._tag.read_from_ndef_service(0)
            except Type3TagCommandError:
                return None
""", """            data = self._tag.read_from_ndef_service(0)
""", 'C08-R1'),
    ('tt4-read-unguarded', 'nfc.tag.tt4', """            except Type4TagCommandError:
                return None
            else:
                return data""", """            except KeyError:
                return None
            else:
                return data""", 'C08-R1'),
    ('activate-lets-errors-through', 'nfc.tag', """    except nfc.clf.CommunicationError:
        return None


def activate_tt1""", """    except nfc.clf.TimeoutError:
        return None


def activate_tt1""", 'C08-R1'),
    ('nxp-probe-unguarded', 'nfc.tag.tt2_nxp', """    except nfc.clf.CommunicationError as error:
        log.debug(repr(error))
        return

    log.debug("check if version command is available")""", """
    log.debug("check if version command is available")""", 'C08-NONE'),
    ('ndef-kept-after-failed-read', 'nfc.tag', """            if ndef.has_changed:
                self._ndef = ndef""", """            ndef.has_changed
            self._ndef = ndef""", 'C08-R1'),
    ('tlv-walk-no-advance', 'nfc.tag.tt2', """                    log.debug(logmsg.format(tlv_t, offset))

                offset += tlv_l + 1 + (1 if tlv_l < 255 else 3)""", """                    log.debug(logmsg.format(tlv_t, offset))
                    continue

                offset += tlv_l + 1 + (1 if tlv_l < 255 else 3)""", 'C08-R3'),
    ('tlv-advance-without-tag-byte', 'nfc.tag.tt1', "                offset += tlv_l + 1 + (1 if tlv_l < 255 else 3)", "                offset += tlv_l + (1 if tlv_l < 255 else 3)", 'C08-R3'),
    ('tt4-read-loop-no-exit', 'nfc.tag.tt4', """                    if len(part) == 0:
                        return None  # no progress, give up
""", "", 'C08-R3'),
    ('tt3-nbr-unchecked', 'nfc.tag.tt3', """            if attributes['nbr'] == 0:
                log.debug("number of blocks for read is zero")
                return None
""", "", 'C08-R3'),
    ('tt1-segment-short-accepted', 'nfc.tag.tt1', """        if len(rsp) < 129:
            raise Type1TagCommandError(RESPONSE_ERROR)
        return rsp[1:129]""", """        return rsp[1:129]""", 'C08-R3'),
    ('tt1-control-tlv-length-untested', 'nfc.tag.tt1', """                    if tlv_l == 3:
                        lock_bytes = get_lock_byte_range(tlv_v)
                        skip_bytes.update(range(*lock_bytes.indices(0x800)))
                    else:
                        log.debug("lock tlv has wrong length")""", """                    lock_bytes = get_lock_byte_range(tlv_v)
                    skip_bytes.update(range(*lock_bytes.indices(0x800)))""", 'C08-R'),
    ('tt2-control-tlv-length-weaker', 'nfc.tag.tt2', """                    if tlv_l == 3:
                        rsvd_bytes = get_rsvd_byte_range(tlv_v)""", """                    if tlv_l <= 3:
                        rsvd_bytes = get_rsvd_byte_range(tlv_v)""", 'C08-R'),
    ('tt3-short-response-unchecked', 'nfc.tag.tt3', """        if len(rsp) < 2:
            log.debug("insufficient response data")
            raise Type3TagCommandError(RSP_LENGTH_ERROR)
""", "", 'C08-R1'),
    ('tt3-status-flags-off-by-one', 'nfc.tag.tt3', "        if check_status and len(rsp) < 12:", "        if check_status and len(rsp) < 10:", 'C08-R1'),
    ('tt3-attribute-block-length', 'nfc.tag.tt3', "        if len(data) != 1 + len(block_list) * 16:", "        if len(data) < 1:", 'C08-R'),
    ('ats-tb-index-off-by-one', 'nfc.tag.tt4', "            if rats_res[1] & 0x20 and len(rats_res) > tb_index:", "            if rats_res[1] & 0x20 and len(rats_res) >= tb_index:", 'C08-R1'),
    ('ats-length-untested', 'nfc.tag.tt4', """        if len(rats_res) > 1:
            fsci = rats_res[1] & 0x0F""", """        if rats_res is not None:
            fsci = rats_res[1] & 0x0F""", 'C08-R1'),
    ('cc-unpack-unbounded', 'nfc.tag.tt4', """unpack(">BHHB9p", capabilities[0:15])""", """unpack(">BHHB9p", capabilities)""", 'C08-R1'),
    ('cc-padding-one-short', 'nfc.tag.tt4', '            capabilities += (15-len(capabilities)) * b"\\0"  # for unpack', '            capabilities += (14-len(capabilities)) * b"\\0"  # for unpack', 'C08-R'),
    ('cclen-length-weaker', 'nfc.tag.tt4', "            if not (cclen and len(cclen) == 2):", "            if not (cclen and len(cclen) >= 1):", 'C08-R1'),
    ('tt2-nak-test-order', 'nfc.tag.tt2', "        if len(data) == 1 and data[0] & 0xFA == 0x00:", "        if data[0] & 0xFA == 0x00 and len(data) == 1:", 'C08-R1'),
    ('tt2-length-vs-capacity-dropped', 'nfc.tag.tt2', """            if ndef is not None and len(ndef) > self._capacity:
                log.debug("ndef message length exceeds the data area")
                return None
""", "", 'C08-R2'),
    ('tt3-length-vs-capacity-logged-only', 'nfc.tag.tt3', """            if attributes['ln'] > self._capacity:
                log.debug("ndef message length exceeds the data area")
                return None
""", """            if attributes['ln'] > self._capacity:
                log.debug("ndef message length exceeds the data area")
""", 'C08-R2'),
    ('tt4-capacity-unclamped', 'nfc.tag.tt4', "self._capacity = min(mfs, 0x10000) - tag + 2", "self._capacity = mfs - tag + 2", 'C08-R2'),
    ('tt4-reader-offset-without-nlen', 'nfc.tag.tt4', "offset = self._nlen_size + len(data)", "offset = self._nlen_size + self._nlen_size + len(data)", 'C08-R2'),
    ('tt4-length-vs-capacity-wrong-operand', 'nfc.tag.tt4', "                if nlen > self._capacity:", "                if nlen > 65535:", 'C08-R2'),
]
MUTANTS = [m for m in MUTANTS if m[4] != 'C08-NONE']

triage.add('C08', 'C08-R1', key('Type2TagCommandError', 'unguarded in', 'tag.tt2.Type2Tag.NDEF._read_ndef_data: tag_memory[14]'),
           'byte 14 is served from the memory reader cache: _read_capability_data (inside its handler) already read bytes 12, 13 and 15, '
           'and the reader fetches 16 byte at a time and only calls the tag for an index >= len(cache)',
           [('nfc.tag.tt2.Type2Tag.NDEF._read_capability_data', 'text:tag_memory[15] >> 4'),
            ('nfc.tag.tt2.Type2TagMemoryReader.__getitem__', 'text:key >= len(self)'),
            ('nfc.tag.tt2.Type2TagMemoryReader._read_from_tag', 'text:, stop, 16)')])

EXPLANATION += ' Round 5: Type 4 capacity / reader / offsets against the address limit folded from READ BINARY; over-long READ BINARY answers; Type 1 / 2 length guard folded for empty messages and negative capacities; no uncounted call cycle in the tag cone (class-rooted call graph, canary).'
