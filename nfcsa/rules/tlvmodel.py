# -*- coding: utf-8 -*-
"""Type 1 / Type 2 Tag NDEF TLV writer (`NDEF._write_ndef_data`), folded.

The writer is folded by the checker's own evaluator over a grid of layouts (data area size, NDEF TLV offset, lock / reserved byte sets
in the middle of the area, flush against its end and across its end) and message lengths (0, 1, capacity - 1, capacity, the 254 / 255
boundary) with the memory image modelled as a plain byte array (synchronize() is a no-op: what is checked is which bytes of the image
the writer changes).  Independent statement of the requirement (C03): the writer changes only the length field of the NDEF TLV and
bytes of the data area behind it that are not lock / reserved bytes -- never a byte at or beyond the end of the data area, never a
skipped byte; and (C01) the message octets sit, in order, on the non-skipped addresses behind the length field.
Nothing of the repository is imported or executed."""
import ast

from ..q import fold_block, NotConst


def _body(f):
    b = list(f.node.body)
    return b[1:] if b and isinstance(b[0], ast.Expr) and isinstance(b[0].value, ast.Constant) else b


def layouts():
    out = []
    for end in (64, 160, 528):
        for off in (16, 21):
            for name, skip in (('no reserved bytes', ()), ('reserved bytes in the middle', range(30, 34)),
                               ('reserved bytes up to the end of the data area', range(end - 8, end)),
                               ('reserved bytes across the end of the data area', range(end - 3, end + 6)),
                               ('last byte of the data area reserved', range(end - 1, end))):
                out.append((end, off, name, frozenset(skip)))
    return out


def run(prog, kind):
    """-> (problems, number of folds)"""
    f = prog.func('nfc.tag.%s.Type%sTag.NDEF._write_ndef_data' % (kind, kind[2]))
    problems, n = [], 0
    phases = []
    for end, off, name, skip in layouts():
        usable = len(set(range(off, end)) - skip)
        cap = usable - (4 if usable > 256 else 2)
        if cap < 1:
            continue
        for ln in sorted(set(x for x in (0, 1, cap - 1, cap, 254, 255) if 0 <= x <= cap and x != 238)):
            n += 1
            image = bytearray([0xEE] * (end + 24))
            if kind == 'tt2':
                image[14] = (end - 16) // 8
            else:
                image[10] = end // 8 - 1
            orig = bytes(image)
            msg = bytes((i % 200) + 1 for i in range(ln))
            snaps = []

            def sync():
                snaps.append(bytes(image))
            env = {'data': bytearray(msg), 'self._tag_memory': image, 'self._skip_bytes': set(skip), 'self._ndef_tlv_offset': off,
                   'self._capacity': cap, '__calls__': {'tag_memory.synchronize': sync, 'self._tag_memory.synchronize': sync}}
            where = '%s, data area 16..%d, NDEF TLV at %d, %s, %d byte message (capacity %d)' % (kind, end - 1, off, name, ln, cap)
            try:
                fold_block(_body(f), env)
            except NotConst as e:
                problems.append('%s: cannot fold (%s)' % (where, e))
                continue
            except (IndexError, KeyError, TypeError, ValueError) as e:
                problems.append('%s: raises %s: %s' % (where, type(e).__name__, e))
                continue
            # C02: what is handed to synchronize() -- every image but the last announces an empty message (L = 00h) in front of whatever
            # the value area holds, and the image that first announces the new length already holds the whole message and is the last
            # one (the order inside one flush is the subject of C02-R2 / its known finding)
            phase = None
            for k_, sn in enumerate(snaps):
                announced = sn[off + 1] if sn[off + 1] != 0xFF else int.from_bytes(sn[off + 2:off + 4], 'big')
                if k_ < len(snaps) - 1 and announced != 0:
                    phase = 'the image flushed by synchronize() number %d of %d announces %d octets before the final flush' % (k_ + 1, len(snaps), announced)
                    break
            if phase is None and (not snaps or bytes(image) != snaps[-1]):
                phase = 'the writer changes the image after its last synchronize() (never flushed)'
            if phase is None and len(snaps) < 2 and ln > 0:
                phase = 'message and length reach the tag in one flush (%d synchronize() calls)' % len(snaps)
            if phase:
                phases.append('%s: %s' % (where, phase))
            hdr = 2 if ln < 255 else 4
            allowed = set(range(off + 1, off + hdr)) | (set(range(off + hdr, end)) - skip)
            changed = [i for i in range(len(image)) if image[i] != orig[i]]
            outside = [i for i in changed if i not in allowed]
            if outside:
                what = 'at or beyond the end of the data area' if any(i >= end for i in outside) else 'lock / reserved bytes'
                problems.append('%s: the writer changes byte(s) %s -- %s' % (where, outside[:4], what))
                continue
            cells = [i for i in range(off + hdr, end) if i not in skip][:ln]
            if bytes(image[i] for i in cells) != msg:
                problems.append('%s: the message octets are not on the free addresses behind the length field' % where)
            elif (image[off + 1] if ln < 255 else int.from_bytes(image[off + 2:off + 4], 'big')) != ln:
                problems.append('%s: the length field does not hold the message length' % where)
    _PHASES[(id(prog), kind)] = phases
    return problems, n


_PHASES = {}


def phase_verdicts(prog, kind):
    verdicts(prog)
    return _PHASES.get((id(prog), kind), [])


def verdicts(prog):
    memo = prog.__dict__.setdefault('_tlvmodel', {})
    if 'v' not in memo:
        memo['v'] = {k: run(prog, k) for k in ('tt1', 'tt2')}
    return memo['v']
