# -*- coding: utf-8 -*-
"""C07 -- bytes from the remote peer cannot crash or hang the stack (structural clauses)."""
import ast
import struct

from ..model import norm, head, walk_no_nested, AnalysisError, FuncInfo, ClassInfo, enclosing_stmt, ancestors
from ..cfg import cfg_of
from ..resolve import Resolver, Ctx
from ..escape import Escape, fmt_chain, items_sorted
from ..q import find, match, try_const, tests, calls, only_via, cfg_node_for, fmt, linear
from ..core import key
from .c09 import BOUNDARIES
from . import c11

EXPLANATION = (
    'R1 exception-escape analysis with an allowed set per peer-input entry point: the LLCP PDU decoders may raise only '
    'pdu.DecodeError; the NFC-DEP frame and PDU decoders only ProtocolError / TransmissionError; LogicalLinkController '
    'activate/exchange/dispatch and the run loops nothing but the documented KeyboardInterrupt / SystemExit (IOError is '
    'handled); Type3TagEmulation.process_command, the SNEP and handover server threads and ContactlessFrontend.connect '
    'nothing (argument errors of connect() raised in connect() itself excepted).  Sources are explicit raises, re-raises, '
    'asserts, catalogued library calls and the implicit raise sites found by the buffer rules R4.  R2 no unbounded '
    'recursion on peer controlled nesting (call-graph cycle check, shared with C11-R7); R3 every loop driven by peer data in '
    'the decoders strictly consumes the remaining size; R4 (buffer rules) peer-controlled buffers are indexed, popped or '
    'destructured only behind a length guard or inside a handler for the implied exception; R5 fixed-size reads (struct.unpack_from / unpack / index) in the LLCP PDU and TLV decoders are inside the checked window or in a handler that converts struct.error / IndexError to DecodeError; Parameter.decode is folded by the checker for every type code and value length (value complete, cut short, limited by size) and either returns or raises DecodeError.  Liveness of all threads after '
    'the input and hangs inside blocking driver calls are not decided.')

LLC = 'nfc.llcp.llc.LogicalLinkController'


def _entries(prog):
    ents = []
    # LLCP PDU decoders
    dec_allowed = lambda e: e == 'nfc.llcp.pdu.DecodeError'       # noqa: E731
    ents.append(('nfc.llcp.pdu.decode', None, dec_allowed, 'pdu.DecodeError only'))
    for c in c11.pdu_classes(prog):
        d = prog.lookup(c, 'decode')
        if isinstance(d, FuncInfo):
            ents.append((d.qname, c.qname, dec_allowed, 'pdu.DecodeError only'))
    ents.append(('nfc.llcp.pdu.Parameter.decode', None, dec_allowed, 'pdu.DecodeError only'))
    # display methods of decoded PDUs run eagerly in the link loop (`"enqueue {0}".format(rcvd_pdu)`, `"     " + str(p)`), whatever
    # the log level: they must be total for every decodable PDU
    seen = set()
    for c in c11.pdu_classes(prog) + [prog.cls('nfc.llcp.pdu.ProtocolDataUnit')]:
        for name in ('__str__', '__repr__', '__format__'):
            d = prog.lookup(c, name)
            if isinstance(d, FuncInfo) and (d.qname, c.qname) not in seen:
                seen.add((d.qname, c.qname))
                ents.append((d.qname, c.qname, (lambda e: False), 'nothing (evaluated in the link loop for every received PDU)'))
    # NFC-DEP decoders
    dep_allowed = lambda e: e in ('nfc.clf.ProtocolError', 'nfc.clf.TransmissionError')      # noqa: E731
    for q, root in (('nfc.dep.Initiator.decode_frame', 'nfc.dep.Initiator'), ('nfc.dep.Target.decode_frame', 'nfc.dep.Target')):
        ents.append((q, root, dep_allowed, 'ProtocolError / TransmissionError only'))
    for cn in ('ATR_REQ', 'ATR_RES', 'PSL_REQ', 'PSL_RES', 'DEP_REQ', 'DEP_RES', 'DSL_REQ', 'DSL_RES', 'RLS_REQ', 'RLS_RES'):
        c = prog.cls('nfc.dep.' + cn)
        d = prog.lookup(c, 'decode')
        ents.append((d.qname, c.qname, dep_allowed, 'ProtocolError / TransmissionError only'))
    return ents


# raise sites that cannot fire for the values these entry points pass (one line of reason each)
INFEASIBLE = {
    ('AssertionError', 'assert socket.addr == self.addr'): 'llc.close() looks the SAP up by socket.addr under the link lock; an unbound socket is closed directly',
    ('AssertionError', 'assert isinstance(request_data, bytearray)'): '_serve passes data = bytearray(client_socket.recv())',
    ('TypeError', "raise TypeError('message data must be a bytes-like object')"): 'service threads send bytes literals and bytearray slices',
    ('TypeError', "raise TypeError('on a raw access point message must be a pdu')"): 'service threads use data link connection sockets',
    ('ndef.EncodeError', 'ndef.message_encoder(records)'): 'records are produced by the application callback (opaque), not by the peer',
    ('AssertionError', 'assert isinstance(target, nfc.clf.LocalTarget)'): '_card_connect passes the LocalTarget returned by listen() after testing it',
    ('ValueError', "raise ValueError('brty pattern does not match for %r' % value)"): 'bit-rate strings are literals or come from the connect() options (argument error)',
}
ARG_OK = {
    ('TypeError', 'nfc.clf.ContactlessFrontend.connect'): 'documented: non-dict options',
    ('OSError', 'nfc.clf.ContactlessFrontend.connect'): 'documented: no device opened (ENODEV)',
}


# bytes.decode / str.encode of peer supplied text on a receiver the resolver cannot type (PDU fields, payloads): strict codecs raise
def _codec_call(call):
    """bytes.decode / str.encode take codec names: a call with another kind of positional argument is a method of the same name of
    some other class (ATR_RES.decode(frame))."""
    return all(isinstance(a, ast.Constant) and isinstance(a.value, str) for a in call.args)


TEXT_CATALOG = {'decode': (['UnicodeDecodeError'], _codec_call), 'encode': (['UnicodeEncodeError'], _codec_call)}


def _harmless_text(it):
    """hexlify(x).decode() and friends: the receiver is pure ASCII by construction."""
    t = it.site_text
    return it.origin == 'catalog' and it.exc in ('UnicodeDecodeError', 'UnicodeEncodeError') and \
        t.startswith(('hexlify(', 'binascii.hexlify(', 'b2a_hex(', 'binascii.b2a_hex(', 'str(', 'repr('))


def rule_escape(report, prog, res):
    from . import c07buf
    implicit_sites = {}
    c07buf.run(report, prog, res, collect=implicit_sites)
    from .. import lookups
    lk, n_lk, n_proved = lookups.sites(prog, [f for f in prog.functions.values()
                                             if f.qname.startswith(('nfc.dep.', 'nfc.llcp.', 'nfc.snep.', 'nfc.handover.'))])
    for q, v in lk.items():
        implicit_sites.setdefault(q, []).extend(v)
    report.stats['table_lookups'] = {'examined': n_lk, 'key proved to be in the table': n_proved}
    report.floor('C07-R1 table lookups with a computed key', n_lk, 2)
    report.stats['implicit_raise_sites'] = sum(len(v) for v in implicit_sites.values())

    def implicit(func, ctx):
        return implicit_sites.get(func.qname, [])
    n = 0
    bad = {}
    for q, root, allowed, what in _entries(prog):
        f = prog.func(q)
        ctx = Ctx(prog.cls(root)) if root else Ctx(None)
        esc = Escape(prog, res, boundaries=BOUNDARIES, implicit=implicit, method_catalog=TEXT_CATALOG)
        n += 1
        for it in items_sorted(esc.esc(f, ctx)):
            if _harmless_text(it):
                continue
            if allowed(it.exc):
                continue
            bad.setdefault((it.exc, it.site_func, it.site_text.split(' [')[0]), []).append((q, what, it, f))
        report.ok('C07-R1', key(q, 'allowed: ' + what), f.loc(), detail='%d functions in the cone' % len(esc.analysed))
    # stack level entry points, analysed layer by layer (assume/guarantee): the summary of a lower layer is what it is allowed to
    # let through; what it lets through beyond that is reported at its own level only
    comm = ['nfc.clf.TimeoutError', 'nfc.clf.TransmissionError', 'nfc.clf.ProtocolError', 'nfc.clf.BrokenLinkError']
    B0 = dict(BOUNDARIES)
    B0['nfc.clf.ContactlessFrontend.sense'] = ['OSError', 'nfc.clf.UnsupportedTargetError']     # called with RemoteTarget objects
    B0['nfc.clf.ContactlessFrontend.listen'] = ['OSError', 'nfc.clf.UnsupportedTargetError']    # called with a DEP LocalTarget
    B0['nfc.llcp.pdu.decode'] = ['nfc.llcp.pdu.DecodeError']
    B0['nfc.llcp.pdu.encode'] = ['nfc.llcp.pdu.EncodeError']
    B1 = dict(B0)
    for role in ('Initiator', 'Target'):
        B1['nfc.dep.%s.activate' % role] = ['OSError', 'nfc.clf.UnsupportedTargetError']
        B1['nfc.dep.%s.exchange' % role] = comm + ['OSError']
        B1['nfc.dep.%s.deactivate' % role] = ['OSError']
    sec_errors = ['nfc.llcp.sec.KeyAgreementError', 'nfc.llcp.sec.DecryptionError', 'nfc.llcp.sec.EncryptionError']
    B2 = dict(B1)
    B2[LLC + '.exchange'] = ['OSError']
    B2[LLC + '.dispatch'] = ['OSError'] + sec_errors
    B2[LLC + '.collect'] = ['OSError'] + sec_errors
    B2[LLC + '.terminate'] = ['OSError']
    B3 = dict(B2)
    B3[LLC + '.activate'] = ['OSError', 'nfc.clf.UnsupportedTargetError']
    B3[LLC + '.run_as_initiator'] = ['KeyboardInterrupt', 'SystemExit', 'OSError']
    B3[LLC + '.run_as_target'] = ['KeyboardInterrupt', 'SystemExit', 'OSError']
    B3['nfc.tag.activate'] = ['OSError']
    B3['nfc.tag.tt3.Type3TagEmulation.process_command'] = []
    B3['nfc.tag.tt3.Type3TagEmulation.send_response'] = comm + ['OSError']
    B3['nfc.tag.Tag.is_present'] = ['OSError']
    commset = set(comm) | {'OSError'}
    specs = [
        ('nfc.dep.Initiator', 'activate', {'OSError', 'nfc.clf.UnsupportedTargetError', 'AssertionError'}, 'IOError / UnsupportedTargetError', B0),
        ('nfc.dep.Initiator', 'exchange', commset, 'CommunicationError / IOError', B0),
        ('nfc.dep.Initiator', 'deactivate', {'OSError'}, 'IOError', B0),
        ('nfc.dep.Target', 'activate', {'OSError', 'nfc.clf.UnsupportedTargetError'}, 'IOError / UnsupportedTargetError', B0),
        ('nfc.dep.Target', 'exchange', commset | {'ValueError', 'AssertionError'}, 'CommunicationError / IOError (+ argument errors)', B0),
        ('nfc.dep.Target', 'deactivate', {'OSError'}, 'IOError', B0),
        ('nfc.dep.Target', 'send_timeout_extension', commset, 'CommunicationError / IOError', B0),
        (LLC, 'activate', {'AssertionError', 'OSError', 'nfc.clf.UnsupportedTargetError'}, 'IOError / UnsupportedTargetError (handled by connect)', B1),
        (LLC, 'exchange', {'OSError'}, 'IOError only', B1),
        (LLC, 'dispatch', {'OSError'} | set(sec_errors), 'IOError and the security errors the run loop handles', B1),
        (LLC, 'collect', {'OSError'} | set(sec_errors), 'IOError and the security errors the run loop handles', B1),
        (LLC, 'run_as_initiator', {'KeyboardInterrupt', 'SystemExit', 'OSError'}, 'KeyboardInterrupt / SystemExit (documented), IOError', B2),
        (LLC, 'run_as_target', {'KeyboardInterrupt', 'SystemExit', 'OSError'}, 'KeyboardInterrupt / SystemExit (documented), IOError', B2),
        ('nfc.tag.tt3.Type3TagEmulation', 'process_command', set(), 'nothing', B0),
        ('nfc.snep.server.SnepServer', '_serve', set(), 'nothing', B0),
        ('nfc.snep.server.SnepServer', '_listen', set(), 'nothing', B0),
        ('nfc.handover.server.HandoverServer', 'serve', set(), 'nothing', B0),
        ('nfc.handover.server.HandoverServer', 'listen', set(), 'nothing', B0),
        ('nfc.clf.ContactlessFrontend', 'connect', set(), 'nothing', B3),
    ]
    for root, m, allowed, what, bnd in specs:
        c = prog.cls(root)
        f = prog.lookup(c, m)
        esc = Escape(prog, res, boundaries=bnd, implicit=implicit, method_catalog=TEXT_CATALOG, catalog={'ndef.message_decoder': ['ndef.DecodeError'], 'ndef.message_encoder': ['ndef.EncodeError']})
        n += 1
        for it in items_sorted(esc.esc(f, Ctx(c))):
            if _harmless_text(it):
                continue
            if it.exc in allowed:
                continue
            if (it.exc, it.site_func) in ARG_OK and it.site_func == f.qname:
                continue
            if it.exc == 'nfc.llcp.err.Error' and it.site_text == 'raise err.Error(errno.ENOTSOCK)':
                continue        # sockets handed to the service threads are created by llc.socket()/accept(): _tco is always a TCO
            if (it.exc, it.site_text) in INFEASIBLE:
                report.stats.setdefault('infeasible_skipped', {})[it.site_text] = INFEASIBLE[(it.exc, it.site_text)]
                continue
            bad.setdefault((it.exc, it.site_func, it.site_text.split(' [')[0]), []).append((f.qname, what, it, f))
        report.ok('C07-R1', key(f.qname, 'allowed: ' + what), f.loc(), detail='%d functions in the cone' % len(esc.analysed))
        report.stats['cone_' + m] = len(esc.analysed)
    for (exc, site_func, site_text), lst in sorted(bad.items()):
        ents = sorted(set(e for e, w, it, f in lst))
        e0, what, it, f = lst[0]
        detail = it.site_text.split(' [', 1)[1].rstrip(']') if ' [' in it.site_text else ''
        report.fail('C07-R1', key(exc, 'raised in ' + site_func, site_text), f.loc(),
                    '%s raised in %s (%s) can leave %s%s, which may only let through: %s%s'
                    % (exc, site_func, site_text, ', '.join(ents[:4]), ', ...' if len(ents) > 4 else '', what, ('; ' + detail) if detail else ''),
                    fmt_chain(it))
    report.floor('C07-R1 entries', n, 36)
    # the ENOTSOCK exemption rests on the socket constructor
    sk = prog.func('nfc.llcp.socket.Socket.__init__')
    report.check(any('llc.socket(' in norm(x) for x in walk_no_nested(sk.node) if isinstance(x, ast.Assign)), 'C07-R1',
                 key(sk.qname, 'socket objects wrap a transmission control object created by llc.socket()'), sk.loc(),
                 'Socket construction changed (ENOTSOCK exemption void)')


def rule_loops(report, prog):
    """Peer driven loops in the LLCP decoders consume the remaining size on every cycle."""
    n = 0
    for c in c11.pdu_classes(prog):
        d = c.methods.get('decode')
        if d is None:
            continue
        for lp in walk_no_nested(d.node):
            if isinstance(lp, ast.While):
                n += 1
                upd = [b for s_, b in find(lp, 'offset, size = ($A, $B)')]
                okk = False
                t = lp.test
                if not upd and isinstance(t, ast.Compare) and len(t.ops) == 1 and isinstance(t.ops[0], ast.Lt) and isinstance(t.left, ast.Name) \
                        and isinstance(t.comparators[0], ast.Name):
                    # cursor form `while cur < end`: the cursor is advanced by a positive constant on every cycle, only ever advanced, and
                    # the end is not moved
                    cur, end_ = t.left.id, t.comparators[0].id
                    stores = [x for x in ast.walk(lp) if isinstance(x, ast.Name) and isinstance(x.ctx, (ast.Store, ast.Del)) and x.id in (cur, end_)]
                    augs = [x for x in ast.walk(lp) if isinstance(x, ast.AugAssign) and isinstance(x.target, ast.Name) and x.target.id == cur
                            and isinstance(x.op, ast.Add)]
                    step = [x for x in lp.body if isinstance(x, ast.AugAssign) and x in augs and isinstance(try_const(x.value), int) and try_const(x.value) >= 1]
                    okk = bool(step) and len(stores) == len(augs) and not any(isinstance(x, ast.Continue) for x in ast.walk(lp)) and \
                        all(isinstance(try_const(x.value), int) and try_const(x.value) >= 0 or isinstance(x.value, ast.Name) for x in augs)
                if len(upd) == 1:
                    lb = linear(upd[0]['B'])
                    # size - 2 - L  /  size - 2 - pdu_size : strictly smaller by at least 2 (L, pdu_size are unsigned fields)
                    okk = lb.get('size') == 1 and lb.get('1', 0) <= -2 and all(v == -1 for k, v in lb.items() if k not in ('size', '1'))
                    # the update must be executed on every cycle (last statement of the body, no continue before it)
                    okk = okk and isinstance(lp.body[-1], ast.Assign) and norm(lp.body[-1].targets[0]) in ('offset, size', '(offset, size)') and \
                        not any(isinstance(x, ast.Continue) for x in ast.walk(lp))
                report.check(okk, 'C07-R3', key(d.qname, 'loop consumes at least 2 byte of the remaining size per cycle', lp.test), d.loc(lp),
                             'decoder loop `while %s` does not strictly shrink the remaining size' % norm(lp.test))
    report.floor('C07-R3', n, 6)
    # emulated tag: loops over block / service counts taken from one byte of the command (bounded by 255)
    f = prog.func('nfc.tag.tt3.Type3TagEmulation.process_command')
    for lp in [l for fn in [f] + [prog.functions[q] for q in prog.functions if q.startswith('nfc.tag.tt3.Type3TagEmulation.') and q != f.qname]
               for l in walk_no_nested(fn.node) if isinstance(l, (ast.For, ast.While))]:
        fn = [prog.functions[q] for q in prog.functions if q.startswith('nfc.tag.tt3.Type3TagEmulation') and any(x is lp for x in ast.walk(prog.functions[q].node))][0]
        if isinstance(lp, ast.For):
            okk = norm(lp.iter).startswith(('range(', 'zip(', 'enumerate(')) or isinstance(lp.iter, (ast.Name, ast.Attribute, ast.Tuple, ast.List, ast.Subscript))
        else:
            okk = False
        report.check(okk, 'C07-R3', key(fn.qname, 'loop over a finite sequence', lp.iter if isinstance(lp, ast.For) else lp.test), fn.loc(lp),
                     'emulation loop is not bounded by a finite sequence')


def _fmt_size(expr):
    """Byte size of a struct format expression: int, or 'L' for `'B%ds' % (L - 1)`-like forms (1 + (L-1))."""
    c = try_const(expr)
    if isinstance(c, str):
        try:
            return struct.calcsize(c)
        except struct.error:
            return None
    b = match(expr, '$F % $E')
    if b is not None:
        f = try_const(b['F'])
        if isinstance(f, str) and f.count('%ds') == 1 and f.count('%') == 1:
            try:
                fixed = struct.calcsize(f.replace('%ds', ''))
            except struct.error:
                return None
            lin = linear(b['E'])
            if set(lin) <= {'L', '1'} and lin.get('L') == 1:
                return ('L', fixed + lin.get('1', 0))       # L + k
    return None


def _handler_converts(node, func, exc_names):
    """The read sits in a try body whose handler for one of exc_names ends by raising DecodeError."""
    for a in ancestors(node):
        if a is func.node:
            break
        if isinstance(a, ast.Try) and any(node is x for st in a.body for x in ast.walk(st)):
            for h in a.handlers:
                ht = norm(h.type) if h.type is not None else ''
                if h.type is None or any(n in ht for n in exc_names) or ht in ('Exception', 'BaseException'):
                    last = h.body[-1]
                    return isinstance(last, ast.Raise) and last.exc is not None and 'DecodeError' in norm(last.exc)
    return False


def rule_struct(report, prog, res):
    """R5: fixed-size reads in the LLCP decoders stay inside the buffer or are converted to DecodeError."""
    PDU = 'nfc.llcp.pdu'
    top = prog.func(PDU + '.decode')
    cfg = cfg_of(top)
    # module level decode(): the window lies inside the buffer and holds at least the two header bytes before anything is read/dispatched
    disp = [c for c, b in find(top.node, 'pdu_type.decode(data, offset, size)')]
    report.check(len(disp) == 1, 'C07-R5', key(top.qname, 'dispatch passes the checked window'), top.loc(), 'decode() no longer dispatches with (data, offset, size)')
    guards = {'window': None, 'size': None}
    for expr, tn in cfg.test_nodes.items():
        t = norm(expr)
        if t in ('offset + size > len(data)', 'len(data) < offset + size'):
            guards['window'] = tn
        if t in ('size < 2', '2 > size'):
            guards['size'] = tn
    for name, what in (('window', 'offset + size <= len(data)'), ('size', 'size >= 2')):
        tn = guards[name]
        okk = False
        if tn is not None and disp:
            tgt = cfg_node_for(cfg, disp[0])
            okk = tgt not in cfg.reachable(cfg.entry, avoid_edges=[(tn, 'false')])
            rd = [cfg_node_for(cfg, c) for c, b in find(top.node, 'struct.unpack_from($F, data, offset)')]
            okk = okk and all(r not in cfg.reachable(cfg.entry, avoid_edges=[(tn, 'false')]) for r in rd)
            # the true branch raises DecodeError
            st = enclosing_stmt(next(e for e in cfg.test_nodes if cfg.test_nodes[e] is tn))
            okk = okk and isinstance(st, ast.If) and isinstance(st.body[-1], ast.Raise) and 'DecodeError' in norm(st.body[-1])
        report.check(okk, 'C07-R5', key(top.qname, 'guard before any read or dispatch', what), top.loc(),
                     'decode() reads or dispatches without first establishing %s (struct.error / IndexError instead of DecodeError)' % what)
    # class decoders are entered through decode() only
    names = {c.name for c in c11.pdu_classes(prog)} | {'ProtocolDataUnit', 'NumberedProtocolDataUnit', 'UnknownProtocolDataUnit'}
    for f in prog.functions.values():
        if not f.qname.startswith('nfc.'):
            continue
        for call in ast.walk(f.node):
            if isinstance(call, ast.Call) and isinstance(call.func, ast.Attribute) and call.func.attr == 'decode' and \
                    norm(call.func.value).split('.')[-1] in names and 'nfc.llcp' in f.qname:
                report.fail('C07-R5', key(f.qname, 'PDU class decoder called directly', call), f.loc(call),
                            '%s bypasses pdu.decode(), which establishes the window the class decoders rely on' % norm(call))
    funcs = []
    for c in c11.pdu_classes(prog) + [prog.cls(PDU + '.UnknownProtocolDataUnit')]:
        d = c.methods.get('decode')
        if d is not None and (c, d) not in funcs:
            funcs.append((c, d, 2))
    base = prog.cls(PDU + '.ProtocolDataUnit')
    numb = prog.cls(PDU + '.NumberedProtocolDataUnit')
    funcs.append((base, base.methods['decode_header'], 0))
    funcs.append((numb, numb.methods['decode_header'], 0))
    n = 0
    for c, f, entry_bound in funcs:
        cfg = cfg_of(f)
        hsn = prog.lookup(c, 'header_size')
        hs = try_const(hsn[2]) if isinstance(hsn, tuple) else None
        extra = []
        for call, b in find(f.node, 'cls.decode_header(data, offset, size)'):
            extra.append(([(cfg_node_for(cfg, call), 'next')], hs))
        for x in walk_no_nested(f.node):
            need = None
            if isinstance(x, ast.Call) and norm(x.func) == 'struct.unpack_from' and len(x.args) >= 2 and norm(x.args[1]) == 'data':
                off = x.args[2] if len(x.args) > 2 else None
                lin = linear(off) if off is not None else {}
                sz = _fmt_size(x.args[0])
                if isinstance(sz, int) and set(lin) <= {'offset', '1'} and lin.get('offset', 0) == 1:
                    need = lin.get('1', 0) + sz
                exc = ('struct.error',)
            elif isinstance(x, ast.Subscript) and norm(x.value) == 'data' and isinstance(x.ctx, ast.Load) and not isinstance(x.slice, ast.Slice):
                if isinstance(enclosing_stmt(x), ast.Raise):
                    continue
                lin = linear(x.slice)
                if set(lin) <= {'offset', '1'} and lin.get('offset', 0) == 1:
                    need = lin.get('1', 0) + 1
                exc = ('IndexError',)
            else:
                continue
            n += 1
            k = key(f.qname, 'read inside the buffer or converted to DecodeError', x)
            if _handler_converts(x, f, exc):
                report.ok('C07-R5', k, f.loc(x), detail='handler converts %s' % exc[0])
                continue
            if need is None:
                report.fail('C07-R5', k, f.loc(x), 'read %s has a form the rule cannot bound and no handler converts %s' % (norm(x), exc[0]))
                continue
            tgt = cfg_node_for(cfg, x)
            # the caller's guarantee holds until `size` is reassigned
            eb = entry_bound if not any(tgt in cfg.reachable(a) for a in c11._size_assign_nodes(cfg, f)) else 0
            have = max(eb, c11._bound_at(cfg, f, tgt, hs, extra))
            report.check(have >= need, 'C07-R5', k, f.loc(x),
                         'read %s needs size >= %d but only size >= %d is established on every path and no handler converts %s to DecodeError'
                         % (norm(x), need, have, exc[0]), detail='need %d have %d' % (need, have))
    # TLV decoder: folded (checker's own evaluator) for every type code 0..12 and every value length 0..5 (and 255), with the value
    # inside the buffer, cut short, and limited by `size`: the text either returns or raises DecodeError -- the conversions of the
    # per type branches never meet struct.error / IndexError themselves
    pd = prog.func(PDU + '.Parameter.decode')
    tlv = c11.TlvFold(prog)
    for t in range(0, 13):
        n += 1
        why = None
        for L in (0, 1, 2, 3, 4, 5, 255):
            for data, size in ((bytes([t, L]) + b'\x21' * L, None), (bytes([t, L]) + b'\x21' * L, L + 2), (bytes([t, L]) + b'\x21' * max(L - 1, 0), None),
                               (bytes([t, L]) + b'\x21' * L, L + 1), (bytes([t]), None)):
                r = tlv.decode(data, 0, size)
                if r[0] == 'return' or (r[0] == 'raise' and r[1].startswith('DecodeError(')):
                    continue
                why = 'decode(%s, 0, %r) -> %s %s' % (data[:8].hex() + ('..' if len(data) > 8 else ''), size, r[0], r[1])
                break
            if why:
                break
        report.check(why is None, 'C07-R5', key(pd.qname, 'TLV type %d: any length is decoded or refused with DecodeError' % t), pd.loc(),
                     'Parameter.decode: %s (struct.error / IndexError instead of DecodeError, or a form the evaluator cannot fold)' % why)
    report.floor('C07-R5 reads', n, 20)


def rule_client_waits(report, prog):
    """R6 (block forever): in the SNEP and handover clients, which promise their callers a timeout, a blocking socket.recv()
    is issued only after socket.poll("recv", <timeout>) on the same socket returned true -- a peer that keeps the link alive
    with SYMM PDUs but never sends the awaited fragment, Continue or response cannot hold the calling thread for ever."""
    n = 0
    for f in sorted(prog.functions.values(), key=lambda f: f.qname):
        if not f.qname.startswith(('nfc.snep.client.', 'nfc.handover.client.')):
            continue
        recvs = [c for c in calls(f.node) if isinstance(c.func, ast.Attribute) and c.func.attr == 'recv' and not c.args]
        if not recvs:
            continue
        cfg = cfg_of(f)
        for c in recvs:
            n += 1
            sock = norm(c.func.value)
            polls = []
            for e, t in cfg.test_nodes.items():
                for p in ast.walk(e):
                    if isinstance(p, ast.Call) and norm(p.func) == sock + '.poll' and len(p.args) >= 2 and try_const(p.args[0]) == 'recv' \
                            and try_const(p.args[1], default=0) is not None and norm(e) == norm(p):
                        polls.append((t, 'true'))
            node = cfg_node_for(cfg, c)
            okk, path = only_via(cfg, node, polls) if node is not None else (False, None)
            # ... and one poll does not pay for two receptions: from any recv() the next one is again behind a poll
            for c2 in recvs:
                n2 = cfg_node_for(cfg, c2)
                if not okk or n2 is None or norm(c2.func.value) != sock:
                    continue
                for nxt, lab in n2.succ:
                    if lab == 'exc' or (n2, lab) in polls:
                        continue
                    if nxt is node or node in cfg.reachable(nxt, avoid_edges=polls):
                        okk, path = False, [n2] + (cfg.path(nxt, node, avoid_edges=polls) or [])
                        break
            report.check(okk, 'C07-R6', key(f.qname, 'recv only after poll("recv", timeout) succeeded', sock), f.loc(c),
                         '%s.recv() in %s is reached without a successful %s.poll("recv", timeout): the caller\'s timeout does not bound the wait '
                         'for the peer' % (sock, f.qname, sock), fmt(cfg, path) if path else None)
    report.floor('C07-R6', n, 4)


def run(report, prog, tier):
    res = Resolver(prog)
    rule_escape(report, prog, res)
    c11.rule_recursion(report, prog, res, rule='C07-R2')
    rule_loops(report, prog)
    rule_struct(report, prog, res)
    rule_client_waits(report, prog)
    from .c04 import rule_deadlines
    rule_deadlines(report, prog, rule='C07-R3')
    c11.agf_retract(report, prog)
    report.trusted += ['interface summaries of ContactlessFrontend.exchange / sense / listen (C13)',
                       'ndeflib raises ndef.DecodeError / ndef.EncodeError', 'user callbacks (on-connect, read_func, process_*_request overrides) are opaque']
    report.assumptions += ['implicit exceptions are modelled for the catalogue of the buffer rules only (index, pop, fixed-arity unpack, struct size, '
                           'literal table lookup); TypeError from str/bytes mixing, MemoryError etc. are not modelled']


# ---------------------------------------------------------------------------------------------------------------------
# triage: reports of the may-analysis that cannot happen, each with the guard that makes it so (re-checked on every run)
from .. import triage   # noqa: E402


def _k(exc, site_func, text):
    return key(exc, 'raised in ' + site_func, text)


def _rtox_guard(f):
    """send_dep_req_recv_dep_res rejects a TimeoutExtension response without payload before its only normal return."""
    body = f.node.body
    rets = [s for s in walk_no_nested(f.node) if isinstance(s, ast.Return)]
    if len(rets) != 1 or rets[0] is not body[-1] or norm(rets[0].value) != 'res':
        return False
    for s in body:
        if isinstance(s, ast.If) and not s.orelse and 'TimeoutExtension' in norm(s.test) and \
                any(t in norm(s.test) for t in ('len(res.data) == 0', 'not res.data', 'len(res.data) < 1')) and \
                isinstance(s.body[-1], ast.Raise) and 'ProtocolError' in norm(s.body[-1]):
            return True
    return False


def _res_only_from_guarded_call(f):
    """In Initiator.exchange `res` is only ever bound to the result of send_dep_req_recv_dep_res."""
    for s in walk_no_nested(f.node):
        if isinstance(s, ast.Assign) and any(norm(t) == 'res' for t in s.targets):
            if not norm(s.value).startswith('self.send_dep_req_recv_dep_res('):
                return False
    return True


for _site in ('res.data[0]', 'res.data[0] in `req = RTOX(res.data[0], self.did, self.nad)`', 'res.data[0] in `rwt = res.data[0] * self.rwt`'):
    triage.add('C07', 'C07-R1', _k('IndexError', 'nfc.dep.Initiator.exchange', _site),
               'res is always the return value of send_dep_req_recv_dep_res, which raises ProtocolError for a TimeoutExtension response without payload; '
               'res.data[0] is read only under res.pfb.fmt == TimeoutExtension',
               [('nfc.dep.Initiator.send_dep_req_recv_dep_res', _rtox_guard), ('nfc.dep.Initiator.exchange', _res_only_from_guarded_call)])


def _listen_dep_checks_length(f):
    """ContactlessFrontend.listen hands out a DEP target only after asserting 16 <= len(atr_req) inside the handler for AssertionError
    (in a local function, or in listen itself when that function was merged into it)."""
    import re
    scopes = [f.node] + [d for d in ast.walk(f.node) if isinstance(d, ast.FunctionDef) and d is not f.node]
    for d in scopes:
        for t in ast.walk(d):
            if not isinstance(t, ast.Try) or not any(h.type is not None and 'AssertionError' in norm(h.type) for h in t.handlers):
                continue
            names = [m.group(1) for x in t.body if isinstance(x, ast.Assert) for m in [re.match(r'len\((\w+)\.atr_req\) >= 16$', norm(x.test))] if m]
            if not names:
                continue
            v = names[0]
            # where the checked object leaves: `return v` / `self.target = v`, all inside the try body and behind the assert
            outs = [x for x in ast.walk(d) if (isinstance(x, ast.Return) and x.value is not None and norm(x.value) == v) or
                    (isinstance(x, ast.Assign) and norm(x.targets[0]) == 'self.target' and norm(x.value) == v)]
            inside = [x for b in t.body for x in ast.walk(b)]
            if outs and all(any(o is x for x in inside) for o in outs):
                return True
    return False


triage.add('C07', 'C07-R1', _k('nfc.clf.ProtocolError', 'nfc.dep.ATR_REQ.decode', "raise nfc.clf.ProtocolError('invalid format of the ATR-REQ')"),
           'Target.activate decodes target.atr_req of the target returned by ContactlessFrontend.listen, which only returns a DEP target whose '
           'atr_req has at least 16 byte (listen_dep)',
           [('nfc.clf.ContactlessFrontend.listen', _listen_dep_checks_length), ('nfc.dep.Target.activate', 'target = self.clf.listen(target, timeout)')])

triage.add('C07', 'C07-R1', _k('nfc.llcp.pdu.EncodeError', LLC + '.activate', 'pdu.encode(send_pax)'),
           'the PAX PDU sent in the general bytes is built from the local configuration only (no peer bytes flow into it)',
           [(LLC + '.activate', lambda f: [norm(s.value).startswith('pdu.ParameterExchange(') and not any(w in norm(s.value) for w in ('gb', 'rcvd', 'mac.'))
                                           for s in walk_no_nested(f.node) if isinstance(s, ast.Assign) and norm(s.targets[0]) == 'send_pax'] == [True])])

for _t in ("raise EncodeError('pdu dsap and ssap field can not be None')", "raise EncodeError('pdu dsap and ssap field can not be < 0')",
           "raise EncodeError('pdu dsap and ssap field can not be > 63')"):
    triage.add('C07', 'C07-R1', _k('nfc.llcp.pdu.EncodeError', 'nfc.llcp.pdu.ProtocolDataUnit.encode_header', _t),
               'dispatch() re-encodes the header of a received UI / I PDU: its address fields were produced by decode_header as 6 bit values',
               [('nfc.llcp.pdu.ProtocolDataUnit.decode_header', 'return ($D >> 2, $S & 63)'),
                (LLC + '.dispatch', 'a = rcvd_pdu.encode_header()')])


DEP, PDUM, LLCM, TT3, SNEPS, HOS, CLF = 'nfc.dep', 'nfc.llcp.pdu', 'nfc.llcp.llc', 'nfc.tag.tt3', 'nfc.snep.server', 'nfc.handover.server', 'nfc.clf'
MUTANTS = [
    ('snep-continue-wait-unbounded', 'nfc.snep.client', """    if not socket.poll("recv", timeout):
        return False

    if socket.recv() != b""", """    if socket.recv() != b""", 'C07-R6'),
    ('snep-fragments-wait-unbounded', 'nfc.snep.client', """                if socket.poll("recv", timeout):
                    snep_response += socket.recv()
                else:
                    return None""", """                snep_response += socket.recv()""", 'C07-R6'),
    ('handover-client-second-recv', 'nfc.handover.client', "                octets += self.socket.recv()\n", "                octets += self.socket.recv()\n                octets += self.socket.recv()\n", 'C07-R6'),
    ('dep-res-code-table', DEP, "if frame[0] != 0xD5 or frame[1] not in (1, 5, 7, 9, 11):", "if frame[0] != 0xD5 or frame[1] not in (1, 3, 5, 7, 9, 11):", 'C07-R1'),
    ('dep-req-code-table', DEP, "if frame[0] != 0xD4 or frame[1] not in (0, 4, 6, 8, 10):", "if frame[0] != 0xD4 or frame[1] > 10:", 'C07-R1'),
    ('dep-res-frame-short', DEP, """    def decode_frame(self, frame):
        if len(frame) < 2:
            error = "NFC-DEP frame length byte must be from 3 to 255"
            raise nfc.clf.TransmissionError(error)
        if self.target.brty == '106A' and frame.pop(0) != 0xF0:
            error = "first NFC-DEP frame byte must be F0h for 106A"
            raise nfc.clf.ProtocolError(error)
        if len(frame) != frame.pop(0):
            error = "NFC-DEP frame length byte must be data length + 1"
            raise nfc.clf.ProtocolError(error)
        if len(frame) < 2:
            error = "NFC-DEP frame length byte must be from 3 to 255"
            raise nfc.clf.TransmissionError(error)
        if frame[0] != 0xD5""", """    def decode_frame(self, frame):
        if self.target.brty == '106A' and frame.pop(0) != 0xF0:
            error = "first NFC-DEP frame byte must be F0h for 106A"
            raise nfc.clf.ProtocolError(error)
        if len(frame) != frame.pop(0):
            error = "NFC-DEP frame length byte must be data length + 1"
            raise nfc.clf.ProtocolError(error)
        if len(frame) < 2:
            error = "NFC-DEP frame length byte must be from 3 to 255"
            raise nfc.clf.TransmissionError(error)
        if frame[0] != 0xD5""", 'C07-R1'),
    ('dep-req-second-length-test-weaker', DEP, """        if len(frame) < 2:
            error = "NFC-DEP frame length byte must be from 3 to 255"
            raise nfc.clf.TransmissionError(error)
        if frame[0] != 0xD4""", """        if len(frame) < 1:
            error = "NFC-DEP frame length byte must be from 3 to 255"
            raise nfc.clf.TransmissionError(error)
        if frame[0] != 0xD4""", 'C07-R1'),
    ('atr-res-length-13', DEP, "            if len(data) < 17:", "            if len(data) < 13:", 'C07-R1'),
    ('atr-req-length-check-dropped', DEP, """            if len(data) < 16:
                raise nfc.clf.ProtocolError("invalid format of the ATR-REQ")
""", "", 'C07-R1'),
    ('dep-pfb-handler-wrong-class', DEP, """            except IndexError:
                errstr = "invalid format of the " + cls.PDU_NAME""", """            except KeyError:
                errstr = "invalid format of the " + cls.PDU_NAME""", 'C07-R1'),
    ('dsl-did-index', DEP, "return cls(data[2] if len(data) == 3 else None)", "return cls(data[2] if len(data) >= 2 else None)", 'C07-R1'),
    ('active-atr-res-unprotected', DEP, """                    try:
                        atr_res = ATR_RES.decode(self.target.atr_res)
                    except nfc.clf.ProtocolError as error:
                        log.debug(error)
""", """                    atr_res = ATR_RES.decode(self.target.atr_res)
""", 'C07-R1'),
    ('rtox-guard-dropped', DEP, """        if res.pfb.fmt == DEP_RES.TimeoutExtension and len(res.data) == 0:
            error = "received NFC-DEP RTOX PDU without RTOX value"
            raise nfc.clf.ProtocolError(error)
""", "", 'C07-R1'),
    ('rtox-guard-wrong-type', DEP, "        if res.pfb.fmt == DEP_RES.TimeoutExtension and len(res.data) == 0:",
     "        if res.pfb.fmt == DEP_RES.Attention and len(res.data) == 0:", 'C07-R1'),
    ('target-rtox-unguarded', DEP, """            if len(req.data) > 0:
                return req.data[0] & 0x3F""", """            if len(req.data) >= 0:
                return req.data[0] & 0x3F""", 'C07-R1'),
    ('atr-failed-handler-narrow', DEP, """            try:
                atr_res = self.send_req_recv_res(atr_req, 1.0)
            except nfc.clf.CommunicationError:
                pass""", """            try:
                atr_res = self.send_req_recv_res(atr_req, 1.0)
            except nfc.clf.TimeoutError:
                pass""", 'C07-R1'),
    ('listen-atr-req-length-unchecked', CLF, """                    assert len(target.atr_req) >= 16, "less than 16 byte"
""", "", 'C07-R1'),
    ('connect-lets-unsupported-target-through', CLF, """        except UnsupportedTargetError as error:
            log.info(error)
            return False
        except KeyboardInterrupt:""", """        except KeyboardInterrupt:""", 'C07-R1'),
    ('tlv-struct-error', PDUM, """        except struct.error as error:
            msg = " while decoding TLV %r" % hexlify(data[offset:])
            raise DecodeError(str(error) + msg)""", """        except KeyError as error:
            msg = " while decoding TLV %r" % hexlify(data[offset:])
            raise DecodeError(str(error) + msg)""", 'C07-R5'),
    ('agf-length-field-error', PDUM, """            except struct.error:
                raise DecodeError("aggregated PDU length field error in AGF")""", """            except struct.error:
                raise""", 'C07-R5'),
    ('decode-size-check-dropped', PDUM, """    if size < 2:
        raise DecodeError("less than two header bytes can't make a valid pdu")
""", "", 'C07-R5'),
    ('connect-tlv-loop-stalls', PDUM, """                log.warning("invalid TLV %r in CONNECT PDU", (T, L, V))
            offset, size = offset + 2 + L, size - 2 - L""", """                log.warning("invalid TLV %r in CONNECT PDU", (T, L, V))
            offset, size = offset + 2 + L, size - L""", 'C07-R3'),
    ('agf-loop-update-conditional', PDUM, """            agf_pdu.append(decode(data, offset+2, pdu_size))
            offset, size = offset + 2 + pdu_size, size - 2 - pdu_size""", """            agf_pdu.append(decode(data, offset+2, pdu_size))
            if pdu_size:
                offset, size = offset + 2 + pdu_size, size - 2 - pdu_size""", 'C07-R3'),
    ('llc-activate-pax-unprotected', LLCM, """            try:
                rcvd_pax = pdu.decode(b"\\x00\\x40" + bytes(gb[3:]))
            except pdu.DecodeError as error:
                log.error("invalid llcp parameters: {0}".format(error))
                return False
""", """            rcvd_pax = pdu.decode(b"\\x00\\x40" + bytes(gb[3:]))
""", 'C07-R1'),
    ('llc-exchange-decode-error-through', LLCM, "        except (nfc.clf.CommunicationError, pdu.Error) as error:", "        except nfc.clf.CommunicationError as error:", 'C07-R1'),
    ('llc-exchange-protocol-error-through', LLCM, "        except (nfc.clf.CommunicationError, pdu.Error) as error:",
     "        except (nfc.clf.TimeoutError, nfc.clf.TransmissionError, pdu.Error) as error:", 'C07-R1'),
    ('run-loop-decryption-error-through', LLCM, [("""        except sec.DecryptionError:
            self.terminate(reason="decryption error")
            raise SystemExit
        except sec.EncryptionError:
            self.terminate(reason="encryption error")
            raise SystemExit
        finally:
            log.debug("llc run loop terminated on initiator")""", """        except sec.EncryptionError:
            self.terminate(reason="encryption error")
            raise SystemExit
        finally:
            log.debug("llc run loop terminated on initiator")""")], None, 'C07-R1'),
    ('tt3-emulation-handler-wrong-class', TT3, """        except IndexError:
            log.error("tt3 command data error")""", """        except KeyError:
            log.error("tt3 command data error")""", 'C07-R1'),
    ('tt3-emulation-empty-command', TT3, "        if not cmd or len(cmd) != cmd[0]:", "        if len(cmd) != cmd[0]:", 'C07-R1'),
    ('snep-short-fragment-accepted', SNEPS, "                if len(data) < 6:", "                if len(data) < 2:", 'C07-R1'),
    ('snep-serve-socket-error-through', SNEPS, """        except nfc.llcp.Error as e:
            (log.debug if e.errno == nfc.llcp.errno.EPIPE else log.error)(e)
        finally:
            client_socket.close()""", """        finally:
            client_socket.close()""", 'C07-R1'),
    ('handover-decode-error-through', HOS, """        except ndef.DecodeError as error:
            log.error(repr(error))
            return b''""", """        except KeyError as error:
            log.error(repr(error))
            return b''""", 'C07-R1'),
    ('handover-serve-socket-error-through', HOS, """        except nfc.llcp.Error as error:
            (log.debug if error.errno == errno.EPIPE else log.error)(error)
        finally:
            socket.close()
            log.debug("handover serve thread terminated")""", """        finally:
            socket.close()
            log.debug("handover serve thread terminated")""", 'C07-R1'),
    ('window-check-dropped', PDUM, """    if offset + size > len(data):
        raise DecodeError("size bytes from offset exceed the data length")
""", "", 'C07-R5'),
    ('miux-length-test-wrong', PDUM, """            if L != 2:
                raise DecodeError("MIUX TLV length error")""", """            if L != 1:
                raise DecodeError("MIUX TLV length error")""", 'C07-R5'),
    ('sdreq-empty-value', PDUM, """            if L == 0:
                raise DecodeError("SDREQ TLV length error")
""", "", 'C07-R5'),
    ('dm-size-test-weaker', PDUM, """        if size != 3:
            raise DecodeError("DM PDU length error")""", """        if size < 2:
            raise DecodeError("DM PDU length error")""", 'C07-R5'),
    ('frmr-size-test-weaker', PDUM, """        if size != 6:
            raise DecodeError("FRMR PDU length error")""", """        if size < 5:
            raise DecodeError("FRMR PDU length error")""", 'C07-R5'),
    ('numbered-header-size-unchecked', PDUM, """        if size < cls.header_size:
            raise DecodeError("numbered pdu header length error")
""", "", 'C07-R5'),
]
