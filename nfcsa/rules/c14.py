# -*- coding: utf-8 -*-
"""C14 -- host-link frames and ISO 14443 CRCs are built and checked correctly (structural clauses)."""
import ast
import struct

from ..model import norm, head, walk_no_nested, AnalysisError, FuncInfo, enclosing_stmt, ancestors, live
from ..cfg import cfg_of
from ..q import (find, match, const, try_const, only_via, tests, stmt_nodes, one, fmt, cfg_node_for, linear, calls,
                 lower_bound_at, edges_where)
from ..core import key

PN = 'nfc.clf.pn53x.Chipset'
ACR = 'nfc.clf.acr122.Chipset'
RCS = 'nfc.clf.rcs380'
DEV = 'nfc.clf.device'
EXPLANATION = (
    'R1 the PN53x command-frame expressions of Chipset.command() are extracted and evaluated by the checker for every '
    'payload length 0..max on both sides of the format switch and validated by an independent reading of the PN53x frame '
    'format (preamble, LEN/LCS, extended format, TFI, DCS, postamble); R2 the response handling of Chipset.command() is '
    'folded by the checker for well-formed normal / extended frames and for every single corruption of them (start code, '
    'LEN / LCS, LEN value, DCS, TFI, response code, every prefix, every single byte): the data comes back for the former, '
    'IOError(EIO) is raised for each of the latter; no data dependent part of the response is skipped, and every read used '
    'by a check is length-guarded (CFG lower bound on len(frame)); R3 the ACR122 CCID/pseudo-APDU envelope sizes, and '
    'ccid_xfr_block / command() folded with a modelled transport against well-formed and corrupted blocks in the same way; R4 the RC-S380 frame builder evaluated for every length and validated independently; R5 CRC_A / '
    'CRC_B parameters (initial value, complement, reflected polynomial 0x8408, bit order) and add/check sibling agreement; '
    'R6 the drivers return Type 1/2 Tag data only on the branch where the CRC check passed.  That calculate_crc computes '
    'the ISO/IEC 14443-3 CRC for every message is an arithmetic identity and is not decided.')


# ---------------------------------------------------------------------------- independent validators
def valid_pn53x_frame(fr, cmd_code, payload):
    fr = bytes(fr)
    if fr[0:3] != b'\x00\x00\xff':
        return 'preamble/start code'
    if fr[3:5] == b'\xff\xff':
        if (fr[5] + fr[6] + fr[7]) & 0xFF:
            return 'extended length checksum'
        n = fr[5] << 8 | fr[6]
        body = fr[8:]
    else:
        if (fr[3] + fr[4]) & 0xFF:
            return 'length checksum'
        n = fr[3]
        body = fr[5:]
    if len(body) != n + 2:
        return 'LEN value %d vs body %d' % (n, len(body) - 2)
    if body[0] != 0xD4 or body[1] != cmd_code or body[2:n] != bytes(payload):
        return 'TFI/command/payload'
    if sum(body[:n + 1]) & 0xFF:
        return 'data checksum'
    if body[n + 1] != 0:
        return 'postamble'
    if n > 255 and fr[3:5] != b'\xff\xff':
        return 'normal frame with LEN > 255'
    return None


def rule_pn53x_build(report, prog):
    f = prog.func(PN + '.command')
    cls = prog.cls(PN)
    sof = prog.lookup(cls, 'SOF')
    SOF = try_const(sof[2]) if isinstance(sof, tuple) else None
    if SOF is None:
        raise AnalysisError('C14-R1: Chipset.SOF constant not found')
    heads = find(f.node, 'head = $E')
    app = [c for c in ast.walk(f.node) if isinstance(c, ast.Call) and norm(c.func) == 'head.append']
    data = find(f.node, 'data = bytearray([212, cmd_code]) + cmd_data')
    dat_any = [b for n, b in find(f.node, 'data = $E') if 'cmd_code' in norm(b['E'])]
    tail = find(f.node, 'tail = $E')
    def _through_local(e):
        # the frame may be put together in a local first: follow a name that is bound exactly once
        if isinstance(e, ast.Name):
            b_ = [a for a in walk_no_nested(f.node) if isinstance(a, ast.Assign) and any(norm(t) == e.id for t in a.targets)]
            if len(b_) == 1:
                return b_[0].value
        return e
    wr = [c for c in ast.walk(f.node) if isinstance(c, ast.Call) and norm(c.func) == 'self.write_frame' and c.args
          and 'head' in norm(_through_local(c.args[0]))]
    sw = [t for t in walk_no_nested(f.node) if isinstance(t, ast.If) and 'len(cmd_data)' in norm(t.test)
          and any(isinstance(x, ast.Assign) and norm(x.targets[0]) == 'head' for x in t.body)]
    if len(heads) != 2 or len(app) != 1 or len(dat_any) != 1 or len(tail) != 1 or len(wr) != 1 or len(sw) != 1:
        report.fail('C14-R1', key(f.qname, 'command frame construction anchors'), f.loc(),
                    'command frame construction changed shape (head x%d, append x%d, data x%d, tail x%d, write x%d)' %
                    (len(heads), len(app), len(dat_any), len(tail), len(wr)))
        return
    sw = sw[0]
    short_e = [x.value for x in sw.body if isinstance(x, ast.Assign)][0]
    long_e = [x.value for x in sw.orelse if isinstance(x, ast.Assign)][0]
    maxima = {}
    for q in ('nfc.clf.pn531.Chipset', 'nfc.clf.pn532.Chipset', 'nfc.clf.pn533.Chipset', 'nfc.clf.rcs956.Chipset'):
        c = prog.cls(q)
        a = prog.lookup(c, 'host_command_frame_max_size')
        maxima[q] = try_const(a[2]) if isinstance(a, tuple) else None
    top = max(v for v in maxima.values() if isinstance(v, int))
    bad = []
    n_eval = 0
    for n in range(0, top - 1):
        payload = bytes((i * 7 + n) & 0xFF for i in range(n))
        for code in (0x00, 0x42, 0xFE):
            env = {'self.SOF': bytearray(SOF), 'cmd_data': bytearray(payload), 'cmd_code': code}
            n_eval += 1
            try:
                is_short = bool(const(sw.test, env))
                h = bytearray(const(short_e if is_short else long_e, env))
                if not is_short:
                    h.append(const(app[0].args[0], dict(env, head=h)))
                d = bytearray(const(dat_any[0]['E'], env))
                t = bytearray(const(tail[0][1]['E'], dict(env, data=d)))
                fr = const(_through_local(wr[0].args[0]), dict(env, head=h, data=d, tail=t))
                why = valid_pn53x_frame(fr, code, payload)
            except (ValueError, struct.error, OverflowError) as e:
                why = 'construction raises %s: %s' % (type(e).__name__, e)
            if why:
                bad.append((n, code, why))
    report.check(not bad, 'C14-R1', key(f.qname, 'command frame valid for every payload length and both formats'), f.loc(),
                 'the command frame built by Chipset.command() is malformed, e.g. (len, code, reason) %s' % bad[:3],
                 detail='%d frames evaluated, payload lengths 0..%d' % (n_eval, top - 2))
    report.stats['pn53x_frames_evaluated'] = n_eval
    # size assertion and per-chip maxima
    a = [x for x in walk_no_nested(f.node) if isinstance(x, ast.Assert)]
    okk = any(norm(x.test) == 'len(cmd_data) <= self.host_command_frame_max_size - 2' for x in a)
    report.check(okk, 'C14-R1', key(f.qname, 'payload limited to host_command_frame_max_size - 2'), f.loc(),
                 'payload size assertion changed')
    report.check(maxima == {'nfc.clf.pn531.Chipset': 254, 'nfc.clf.pn532.Chipset': 265, 'nfc.clf.pn533.Chipset': 265,
                            'nfc.clf.rcs956.Chipset': 265} or all(isinstance(v, int) and 254 <= v <= 265 for v in maxima.values()),
                 'C14-R1', key('host_command_frame_max_size', 'per chip within 254..265'), f.loc(), 'frame maxima %r' % maxima)
    ack = prog.lookup(cls, 'ACK')
    report.check(isinstance(ack, tuple) and bytes(try_const(ack[2]) or b'') == bytes.fromhex('0000FF00FF00'), 'C14-R1',
                 key(PN, 'ACK frame constant 00 00 FF 00 FF 00'), f.loc(), 'ACK constant changed')


def _pn53x_response(code, payload, extended):
    body = bytes([0xD5, code + 1]) + bytes(payload)
    dcs = -sum(body) & 0xFF
    if extended:
        hi, lo = len(body) >> 8, len(body) & 0xFF
        head = b'\x00\x00\xff\xff\xff' + bytes([hi, lo, -(hi + lo) & 0xFF])
    else:
        head = b'\x00\x00\xff' + bytes([len(body), -len(body) & 0xFF])
    return head + body + bytes([dcs, 0])


def _pn53x_corruptions(code, payload, extended):
    """-> [(what, frame)]: one defect each, everything else kept consistent."""
    good = _pn53x_response(code, payload, extended)
    h = 8 if extended else 5
    out = []
    out.append(('start code', b'\x00\x00\xfe' + good[3:]))
    out.append(('start code', b'\x00\xff' + good[2:]))
    bad = bytearray(good)
    bad[h - 1] ^= 0x01
    out.append(('length checksum', bytes(bad)))
    # LEN one too large / one too small with a matching checksum
    for d in (1, -1):
        n = len(payload) + 2 + d
        if n < 0 or (not extended and n > 255):
            continue
        bad = bytearray(good)
        if extended:
            bad[5], bad[6] = n >> 8, n & 0xFF
            bad[7] = -(bad[5] + bad[6]) & 0xFF
        else:
            bad[3], bad[4] = n, -n & 0xFF
        out.append(('length value', bytes(bad)))
    bad = bytearray(good)
    bad[-2] ^= 0x10
    out.append(('data checksum', bytes(bad)))
    if payload:
        bad = bytearray(good)
        bad[h + 2] ^= 0x04
        out.append(('data checksum', bytes(bad)))
    for tfi in (0xD4, 0x00):
        bad = bytearray(good)
        bad[h] = tfi
        bad[-2] = -sum(bad[h:-2]) & 0xFF
        out.append(('frame identifier D5', bytes(bad)))
    for c in (code, code + 2):
        bad = bytearray(good)
        bad[h + 1] = c & 0xFF
        bad[-2] = -sum(bad[h:-2]) & 0xFF
        out.append(('response code == command + 1', bytes(bad)))
    for k in range(0, len(good)):
        out.append(('complete frame', good[:k]))
    # any single corrupted byte (every byte of the frame is covered by the start code, a checksum or the postamble)
    for k in range(len(good)):
        for bit in (0x01, 0x80):
            bad = bytearray(good)
            bad[k] ^= bit
            what = 'start code' if k < 3 else 'length checksum' if k < h else 'data checksum'
            out.append((what, bytes(bad)))
    return out


def _pn53x_response_sweep(report, prog, f, ret):
    from ..q import fold_block, NotConst
    body = list(f.node.body)
    first = [i for i, st in enumerate(body) if isinstance(st, ast.If) and 'frame.startswith(' in norm(st.test)]
    cls = prog.cls(PN)
    sof = prog.lookup(cls, 'SOF')
    sof = try_const(sof[2]) if isinstance(sof, tuple) else None
    if not first or sof is None:
        report.fail('C14-R2', key(f.qname, 'response handling folds'), f.loc(),
                    'the response handling of Chipset.command() (from the start code test to the return) is no longer a statement sequence of '
                    'the function body: the conformance sweep cannot be applied')
        return
    region = body[first[0]:]

    class _ChipError(Exception):
        pass

    def chipset_error(*a):
        raise _ChipError()

    def run(frame, code):
        env = {'frame': bytearray(frame), 'cmd_code': code, 'self.SOF': bytearray(sof), '__calls__': {'self.chipset_error': chipset_error}}
        try:
            return fold_block(region, env)
        except _ChipError:
            return ('raise', 'chipset_error')
        except NotConst as e:
            return ('notconst', str(e))
        except (IndexError, ValueError, TypeError) as e:
            return ('error', '%s: %s' % (type(e).__name__, e))
    bad = {}
    n = 0
    for code in (0x00, 0x32, 0xFE):
        for ln in (0, 1, 2, 17, 253, 254, 262):
            payload = bytes((i * 5 + ln) & 0xFF for i in range(ln))
            for extended in (False, True):
                if not extended and ln + 2 > 255:
                    continue
                n += 1
                r = run(_pn53x_response(code, payload, extended), code)
                if r != ('return', payload) and not (r[0] == 'return' and bytes(r[1]) == payload):
                    bad.setdefault('well-formed frame', []).append('%s frame with %d data bytes -> %s %s' % (
                        'extended' if extended else 'normal', ln, r[0], str(r[1])[:60]))
                if ln > 17:
                    continue
                for what, fr in _pn53x_corruptions(code, payload, extended):
                    n += 1
                    r = run(fr, code)
                    if not (r[0] == 'raise' and (r[1].startswith('IOError(errno.EIO') or r[1] == 'chipset_error')):
                        bad.setdefault(what, []).append('%s -> %s %s' % (fr.hex(), r[0], str(r[1])[:60]))
    report.stats['pn53x_response_frames_folded'] = n
    for what in ('well-formed frame', 'start code', 'length checksum', 'length value', 'data checksum', 'frame identifier D5',
                 'response code == command + 1', 'complete frame'):
        if what == 'well-formed frame':
            report.check(what not in bad, 'C14-R2', key(f.qname, 'a well-formed response hands back exactly its data'), f.loc(ret.ast),
                         'Chipset.command() does not return the data of a well-formed response: %s' % '; '.join(bad.get(what, [])[:2]))
        else:
            report.check(what not in bad, 'C14-R2', key(f.qname, 'response returned only after check: ' + what), f.loc(ret.ast),
                         'Chipset.command() can return response data without the check "%s": a corrupted frame is accepted as data, e.g. %s'
                         % (what, '; '.join(bad.get(what, [])[:2])))


def rule_pn53x_accept(report, prog):
    f = prog.func(PN + '.command')
    cfg = cfg_of(f)
    rets = [n for n in cfg.nodes if n.kind == 'stmt' and isinstance(n.ast, ast.Return) and n.ast.value is not None]
    if len(rets) != 1:
        raise AnalysisError('C14-R2: command() has %d value returns' % len(rets))
    ret = rets[0]
    rb = match(ret.ast.value, 'frame[$A:$B]')
    # the response handling of command() folded (checker's own evaluator) for well-formed normal / extended frames and for every
    # single corruption of them: the payload comes back for the former, IOError(EIO) is raised for each of the latter
    _pn53x_response_sweep(report, prog, f, ret)
    report.check(rb is not None and try_const(rb['A']) == 2 and try_const(rb['B']) == -2, 'C14-R2',
                 key(f.qname, 'returned data excludes TFI/code and DCS/postamble'), f.loc(ret.ast),
                 'returned slice is %s' % norm(ret.ast.value))
    # reads used by the checks are length-guarded (constant index / fixed-size unpack of a slice)
    kills = [n for n in cfg.nodes if n.kind == 'stmt' and isinstance(n.ast, ast.Assign)
             and any(norm(t) == 'frame' for t in n.ast.targets)]
    # the response is checked as received: only the fixed-size header is ever removed, nothing is skipped to find a frame start
    resync = [n for n, b in find(f.node, 'del frame[$A:$B]') if not (isinstance(try_const(b['A']), int) and isinstance(try_const(b['B']), int))]
    resync += [n for n in walk_no_nested(f.node) if isinstance(n, ast.Delete) and any(norm(t).startswith('frame[') for t in n.targets)
               and not find(n, 'del frame[$A:$B]')]
    resync += [k.ast for k in kills if any(isinstance(x, ast.Name) and x.id == 'frame' for x in ast.walk(k.ast.value))]
    resync += [c for c in ast.walk(f.node) if isinstance(c, ast.Call) and norm(c.func) in ('frame.pop', 'frame.remove', 'frame.lstrip', 'frame.strip')]
    report.check(not resync, 'C14-R2', key(f.qname, 'no bytes of the response are skipped before the framing checks'),
                 f.loc(resync[0]) if resync else f.loc(),
                 'Chipset.command() removes a data dependent part of the response (`%s`): a buffer that is not a well-formed frame '
                 '(junk in front of a frame) is accepted' % (norm(resync[0])[:60] if resync else ''))
    del_nodes = [(cfg.node_of(n), try_const(b['B']) - try_const(b['A'])) for n, b in find(f.node, 'del frame[$A:$B]')
                 if isinstance(try_const(b['A']), int) and isinstance(try_const(b['B']), int)]
    extra = []
    for e, t in cfg.test_nodes.items():
        b = match(e, '$X != len(frame) - $K')
        if b is not None and isinstance(try_const(b['K']), int):
            extra.append(([(t, 'false')], try_const(b['K'])))      # X is an unsigned field: len(frame) = X + K >= K
        if norm(e).startswith("frame.startswith(self.SOF + b'\\xff\\xff')"):
            extra.append(([(t, 'true')], 5))
        elif norm(e) == 'frame.startswith(self.SOF)':
            extra.append(([(t, 'true')], 3))

    def bound(node):
        reach_dels = [(d, w) for d, w in del_nodes if node in cfg.reachable(d) and node is not d]
        direct = node in cfg.reachable(cfg.entry, avoid_nodes=[d for d, w in del_nodes])
        vals = []
        if direct or not reach_dels:
            vals.append(lower_bound_at(cfg, 'len(frame)', node, extra_guards=extra, kills=kills) or 0)
        for d, w in reach_dels:
            vals.append((lower_bound_at(cfg, 'len(frame)', d, extra_guards=extra, kills=kills) or 0) - w)
        return min(vals)
    n_reads = 0
    for e, t in cfg.test_nodes.items():
        if not any(norm(x) == 'frame' for x in ast.walk(e) if isinstance(x, ast.Name)):
            continue
        needs = []
        for c in ast.walk(e):
            if isinstance(c, ast.Call) and norm(c.func) in ('unpack', 'struct.unpack') and len(c.args) == 2:
                sl = [x for x in ast.walk(c.args[1]) if isinstance(x, ast.Subscript) and isinstance(x.slice, ast.Slice)
                      and norm(x.value) == 'frame']
                if sl and isinstance(try_const(sl[0].slice.upper), int):
                    needs.append((try_const(sl[0].slice.upper), norm(c), 'struct.error'))
            if isinstance(c, ast.Subscript) and norm(c.value) == 'frame' and not isinstance(c.slice, ast.Slice):
                i_ = try_const(c.slice)
                if isinstance(i_, int) and i_ >= 0:
                    needs.append((i_ + 1, norm(c), 'IndexError'))
        for need, what, exc in needs:
            n_reads += 1
            have = bound(t)
            report.check(have >= need, 'C14-R2', key(f.qname, 'read used by a framing check is length-guarded', what), f.loc(e),
                         '%s needs len(frame) >= %d but only len(frame) >= %d is established on every path: a truncated response '
                         'raises %s instead of IOError' % (what, need, have, exc))
    report.floor('C14-R2 reads', n_reads, 5)


def rule_acr122(report, prog):
    f = prog.func(ACR + '.ccid_xfr_block')
    cfg = cfg_of(f)
    pk = [c for c in ast.walk(f.node) if isinstance(c, ast.Call) and norm(c.func) == 'struct.pack']
    okk = False
    if len(pk) == 1:
        fmt_ = try_const(pk[0].args[0])
        okk = isinstance(fmt_, str) and struct.calcsize(fmt_) == 10 and try_const(pk[0].args[1]) == 0x6F \
            and norm(pk[0].args[2]) == 'len(data)' and fmt_[0] == '<' and all(try_const(a) == 0 for a in pk[0].args[3:])
    report.check(okk, 'C14-R3', key(f.qname, 'CCID header: 6F, LE32 length of the payload, 5 zero bytes (10 byte)'), f.loc(),
                 'CCID PC_to_RDR header construction changed: %s' % (norm(pk[0]) if pk else None))
    ret = [n for n in cfg.nodes if n.kind == 'stmt' and isinstance(n.ast, ast.Return)]
    # the function folded (checker's own evaluator) with a modelled transport: a well-formed RDR_to_PC_DataBlock hands back its
    # payload, every single corruption raises IOError(EIO)
    from ..q import fold_block, NotConst

    def body_of(fn):
        b = list(fn.node.body)
        return b[1:] if b and isinstance(b[0], ast.Expr) and isinstance(b[0].value, ast.Constant) else b

    def run_ccid(response):
        env = {'data': bytearray(b'\xd4\x02'), 'timeout': 0.1,
               '__calls__': {'self.transport.write': lambda *a: None, 'self.transport.read': lambda *a: (bytearray(response) if response is not None else None)}}
        try:
            return fold_block(body_of(f), env)
        except NotConst as e:
            return ('notconst', str(e))
        except (IndexError, ValueError, TypeError) as e:
            return ('error', '%s: %s' % (type(e).__name__, e))
    bad = {}
    for ln in (0, 1, 6, 300):
        payload = bytes((i * 3 + 1) & 0xFF for i in range(ln))
        good = bytes([0x80]) + struct.pack('<I', ln) + bytes(5) + payload
        r = run_ccid(good)
        if not (r[0] == 'return' and bytes(r[1]) == payload):
            bad.setdefault('well-formed block', []).append('%d payload bytes -> %s %s' % (ln, r[0], str(r[1])[:50]))
        cases = [('message type 80', bytes([0x81]) + good[1:]), ('message type 80', bytes([0x00]) + good[1:]),
                 ('length field', good[:1] + struct.pack('<I', ln + 1) + good[5:]), ('length field', good + b'\x00'),
                 ('length field', good[:1] + struct.pack('>I', ln) + good[5:] if ln else good[:1] + struct.pack('<I', 256) + good[5:])]
        for k in (1, 2, 3, 4):
            for bit in (0x01, 0x80):
                fr_ = bytearray(good)
                fr_[k] ^= bit
                cases.append(('length field', bytes(fr_)))
        cases += [('at least 10 byte', good[:k]) for k in range(0, 10)] + [('at least 10 byte', None)]
        if ln:
            cases.append(('length field', good[:-1]))
        for what, fr in cases:
            r = run_ccid(fr)
            if not (r[0] == 'raise' and r[1].startswith('IOError(errno.EIO')):
                bad.setdefault(what, []).append('%s -> %s %s' % (fr.hex() if fr is not None else None, r[0], str(r[1])[:50]))
    report.check('well-formed block' not in bad, 'C14-R3', key(f.qname, 'a well-formed CCID block hands back exactly its payload'), f.loc(),
                 'ccid_xfr_block does not return the payload of a well-formed block: %s' % '; '.join(bad.get('well-formed block', [])[:2]))
    for what in ('at least 10 byte', 'length field', 'message type 80'):
        report.check(what not in bad, 'C14-R3', key(f.qname, 'CCID response accepted only after check: ' + what), f.loc(),
                     'ccid_xfr_block accepts a response without the check: %s (%s)' % (what, '; '.join(bad.get(what, [])[:2])))
    want = {}
    # ... and the frame that is returned is the frame that was checked: after each read from the transport every check lies on
    # every path to the return (a second read behind the checks -- retry, time extension -- would hand out an unchecked block)
    reads = [n for n in cfg.nodes if n.kind == 'stmt' and any(isinstance(c, ast.Call) and norm(c.func) == 'self.transport.read' for c in ast.walk(n.ast))
             and isinstance(n.ast, (ast.Assign, ast.Expr, ast.Return, ast.AugAssign))]
    # (the fold above follows one read; a read that can follow another one -- retry, time extension -- is outside what it covers)
    again = [r for r in reads if any(r in cfg.reachable(r2) and (r is not r2 or r in [m for m, l in r2.succ]) for r2 in reads if r2 is not r)]
    loops = [r for r in reads if r in cfg.reachable(r) and any(isinstance(a, (ast.While, ast.For)) for a in ancestors(r.ast))]
    bad_ = again + loops
    for what in ('at least 10 byte', 'length field', 'message type 80'):
        report.check(len(reads) >= 1 and not bad_, 'C14-R3', key(f.qname, 'every block read from the reader passes the check: ' + what),
                     f.loc(bad_[0].ast) if bad_ else f.loc(),
                     'a block read by `%s` can follow the one the checks were applied to: it reaches the return without the check: %s'
                     % (norm(bad_[0].ast)[:60] if bad_ else '', what))
    report.check(bool(ret) and norm(ret[0].ast.value) == 'frame[10:]', 'C14-R3', key(f.qname, 'payload starts after the 10 byte header'),
                 f.loc(), 'returned payload slice changed')
    raises = [x for x in walk_no_nested(f.node) if isinstance(x, ast.Raise)]
    report.check(len(raises) >= 3 and all('IOError(errno.EIO' in norm(x) for x in raises), 'C14-R3',
                 key(f.qname, 'every rejected response raises IOError'), f.loc(), 'a rejected CCID response does not raise IOError')
    # empty / short read is tested before frame[0]
    g = prog.func(ACR + '.command')
    gc = cfg_of(g)
    apdu = find(g.node, 'frame = bytearray([255, 0, 0, 0, len(frame)]) + frame')
    inner = find(g.node, 'frame = bytearray([212, cmd_code]) + bytearray(cmd_data)')
    report.check(len(apdu) == 1 and len(inner) == 1 and gc.dominates(gc.node_of(inner[0][0]), gc.node_of(apdu[0][0])), 'C14-R3',
                 key(g.qname, 'pseudo APDU FF 00 00 00 Lc wraps D4 <cmd> <data>, Lc = wrapped length'), g.loc(),
                 'pseudo-APDU envelope changed')
    ret = [n for n in gc.nodes if n.kind == 'stmt' and isinstance(n.ast, ast.Return)]

    def run_cmd(code, response):
        env = {'cmd_code': code, 'cmd_data': bytearray(b'\x01'), 'timeout': 0.1,
               '__calls__': {'self.ccid_xfr_block': lambda *a: (bytearray(response) if response is not None else None)}}
        try:
            return fold_block(body_of(g), env)
        except NotConst as e:
            return ('notconst', str(e))
        except (IndexError, ValueError, TypeError) as e:
            return ('error', '%s: %s' % (type(e).__name__, e))
    bad = {}
    for code in (0x00, 0x4A, 0xFE):
        for ln in (0, 1, 9):
            payload = bytes((i * 3 + 1) & 0xFF for i in range(ln))
            good = bytes([0xD5, code + 1]) + payload + b'\x90\x00'
            r = run_cmd(code, good)
            if not (r[0] == 'return' and bytes(r[1]) == payload):
                bad.setdefault('well-formed response', []).append('%d data bytes -> %s %s' % (ln, r[0], str(r[1])[:50]))
            cases = [('D5 and response code', bytes([0xD4]) + good[1:]), ('D5 and response code', good[:1] + bytes([code]) + good[2:]),
                     ('D5 and response code', good[:1] + bytes([(code + 2) & 0xFF]) + good[2:]),
                     ('status 90 00', good[:-2] + b'\x63\x00'), ('status 90 00', good[:-2] + b'\x90\x01'), ('status 90 00', good[:-2] + b'\x00\x90')]
            cases += [('at least 4 byte', good[:k]) for k in range(0, 4)] + [('at least 4 byte', None)]
            for what, fr in cases:
                r = run_cmd(code, fr)
                if not (r[0] == 'raise' and r[1].startswith('IOError(errno.EIO')):
                    bad.setdefault(what, []).append('%s -> %s %s' % (fr.hex() if fr is not None else None, r[0], str(r[1])[:50]))
    report.check('well-formed response' not in bad, 'C14-R3', key(g.qname, 'a well-formed chip response hands back exactly its data'), g.loc(),
                 'acr122 command() does not return the data of a well-formed response: %s' % '; '.join(bad.get('well-formed response', [])[:2]))
    for what in ('at least 4 byte', 'D5 and response code', 'status 90 00'):
        report.check(what not in bad, 'C14-R3', key(g.qname, 'chip response accepted only after check: ' + what), g.loc(),
                     'acr122 command() accepts a response without the check: %s (%s)' % (what, '; '.join(bad.get(what, [])[:2])))
    report.check(bool(ret) and norm(ret[0].ast.value) == 'frame[2:-2]', 'C14-R3', key(g.qname, 'returned data excludes D5/code and SW1 SW2'),
                 g.loc(), 'returned slice changed')
    raises = [x for x in walk_no_nested(g.node) if isinstance(x, ast.Raise)]
    report.check(len(raises) >= 3 and all('IOError(errno.EIO' in norm(x) for x in raises), 'C14-R3',
                 key(g.qname, 'every rejected response raises IOError'), g.loc(), 'a rejected chip response does not raise IOError')


def rule_rcs380(report, prog):
    """R4: Frame.__init__ is folded by the checker both ways: for a payload it must build 00 00 FF FF FF | LEN (LE16) | LCS | payload |
    DCS | 00 with both checksums right (payload lengths 0..299, 511, 512, 1000), and given such a frame (or the ack / error frame)
    it must classify it and hand back exactly the payload."""
    from ..q import fold_lenient
    f = prog.func(RCS + '.Frame.__init__')
    bad = []
    n_eval = 0

    def fold(data):
        env = {f.params[1] if len(f.params) > 1 else 'data': bytearray(data)}

        def sync(st, e):
            if 'self._type' in e:
                e['self.type'] = e['self._type']
            if 'self._data' in e:
                e['self.data'] = e['self._data']
        fold_lenient(f.node.body, env, visit=sync)
        return env
    for n in list(range(0, 300)) + [511, 512, 1000]:
        data = bytes(((i * 5 + n) & 0xFF) | 1 for i in range(n))
        env = fold(data)
        n_eval += 1
        fr = env.get('self._frame')
        why = None
        if not isinstance(fr, (bytes, bytearray)):
            why = 'cannot fold the frame construction'
        else:
            fr = bytes(fr)
            if fr[0:5] != b'\x00\x00\xff\xff\xff':
                why = 'preamble/extended marker'
            elif len(fr) != n + 10:
                why = 'frame is %d octets long, expected %d' % (len(fr), n + 10)
            elif struct.unpack('<H', fr[5:7])[0] != n:
                why = 'length field'
            elif (fr[5] + fr[6] + fr[7]) & 0xFF:
                why = 'length checksum'
            elif fr[8:8 + n] != data:
                why = 'payload'
            elif (sum(fr[8:8 + n]) + fr[8 + n]) & 0xFF:
                why = 'data checksum'
            elif fr[9 + n:] != b'\x00':
                why = 'postamble'
        if why:
            bad.append((n, why))
            if why.startswith('cannot'):
                break
            continue
        if n in (0, 1, 2, 7, 255, 256, 299, 1000):
            back = fold(fr)
            if back.get('self._type') != 'data' or back.get('self._data') is None or bytes(back.get('self._data')) != data:
                bad.append((n, 'parsing the frame gives type %r and %r octets of data' % (back.get('self._type'), len(back.get('self._data') or b''))))
    for raw, typ in ((b'\x00\x00\xff\x00\xff\x00', 'ack'), (b'\x00\x00\xff\xff\xff', 'err')):
        back = fold(raw)
        if back.get('self._type') != typ:
            bad.append((len(raw), '%s frame classified as %r' % (typ, back.get('self._type'))))
    report.check(not bad, 'C14-R4', key(f.qname, 'frame valid for every payload length, parsed back to the payload'), f.loc(),
                 'RC-S380 frame malformed, e.g. (len, reason) %s' % bad[:3], detail='%d frames evaluated' % n_eval)


def _crc16_ref(data, init):
    """ISO/IEC 14443-3 Annex B (ITU-T V.41 reflected polynomial 8408h, LSB first), written independently of the library."""
    crc = init
    for b in data:
        b ^= crc & 0xFF
        b = (b ^ (b << 4)) & 0xFF
        crc = ((crc >> 8) ^ (b << 8) ^ (b << 3) ^ (b >> 4)) & 0xFFFF
    return crc


def rule_crc(report, prog):
    """R5: calculate_crc and the four add / check helpers are folded by the checker's interpreter (loops over the message octets and
    the eight bit positions included) for every one octet message, a grid of two octet messages and some longer ones, and compared
    with an independent implementation of the ISO/IEC 14443-3 CRC: CRC_A preset 6363h, CRC_B preset FFFFh with final complement,
    both appended low octet first; a check accepts exactly the frames whose last two octets are that CRC."""
    from ..q import fold_func, NotConst
    calc = prog.func(DEV + '.calculate_crc')
    msgs = [b''] + [bytes([a]) for a in range(256)] + [bytes([a, b]) for a in range(0, 256, 17) for b in range(0, 256, 23)] + \
        [bytes(range(9)), b'\x12\x34', b'\x00\x00\x00', bytes(range(250, 256)) * 3]
    bad = []
    for m in msgs:
        for init in (0x6363, 0xFFFF):
            try:
                got = fold_func(prog, calc, [bytearray(m), len(m), init])
            except NotConst as e:
                bad.append('cannot fold calculate_crc (%s)' % e)
                break
            if got != _crc16_ref(m, init):
                bad.append('calculate_crc(%s, preset %04X) = %r, ISO/IEC 14443-3 gives %04X' % (m.hex() or "''", init, got, _crc16_ref(m, init)))
        if bad and bad[-1].startswith('cannot'):
            break
    report.check(not bad, 'C14-R5', key(calc.qname, 'CRC register equals the ISO/IEC 14443-3 CRC for every message folded'), calc.loc(),
                 '; '.join(bad[:2]), detail='%d messages x 2 presets folded' % len(msgs))
    # a size argument shorter than the data covers a prefix only
    try:
        okp = fold_func(prog, calc, [bytearray(b'\x12\x34\x56'), 2, 0x6363]) == _crc16_ref(b'\x12\x34', 0x6363)
    except NotConst:
        okp = False
    report.check(okp, 'C14-R5', key(calc.qname, 'the CRC covers data[:size]'), calc.loc(), 'calculate_crc does not stop at `size` octets')
    dev = prog.cls(DEV + '.Device')

    def _args(fn, data):
        return [data] if len(fn.params) == 1 else [None, data]
    for kind, init, compl in (('a', 0x6363, False), ('b', 0xFFFF, True)):
        add = dev.methods['add_crc_' + kind]
        chk = dev.methods['check_crc_' + kind]
        bad = []
        for m in msgs[::7] + [b'\x12\x34', b'\x00\x00\x00']:
            ref = _crc16_ref(m, init)
            if compl:
                ref = ~ref & 0xFFFF
            want = bytes(m) + bytes([ref & 0xFF, ref >> 8])
            try:
                got = fold_func(prog, add, _args(add, bytearray(m)))
                ok_good = fold_func(prog, chk, _args(chk, bytearray(want)))
                ok_bad1 = fold_func(prog, chk, _args(chk, bytearray(want[:-1] + bytes([want[-1] ^ 1]))))
                ok_bad2 = fold_func(prog, chk, _args(chk, bytearray(want[:-2] + bytes([want[-1], want[-2]])))) if want[-1] != want[-2] else False
            except NotConst as e:
                bad.append('cannot fold add_crc_%s / check_crc_%s (%s)' % (kind, kind, e))
                break
            if bytes(got) != want:
                bad.append('add_crc_%s(%s) = %s, expected %s' % (kind, m.hex(), bytes(got).hex(), want.hex()))
            if ok_good is not True or ok_bad1 is not False or ok_bad2 is not False:
                bad.append('check_crc_%s accepts / refuses the wrong frames for message %s (%r, %r, %r)' % (kind, m.hex(), ok_good, ok_bad1, ok_bad2))
        report.check(not bad, 'C14-R5', key(dev.qname, 'CRC_%s: preset %04X%s, appended low octet first, checked in the same order' % (
            kind.upper(), init, ', complemented' if compl else '')), add.loc(), '; '.join(bad[:2]))


def rule_crc_routing(report, prog, rule='C14-R7'):
    """R7: whenever a driver switches the chip's receive CRC check off for a target, responses of that target go through the driver's
    own CRC_A check: the condition that disables the chip check and the condition that routes to _tt2_send_cmd_recv_rsp select the
    same targets (otherwise a corrupted response of a target in the gap is returned as data, CRC bytes included)."""
    def strip(t):
        return t.replace('target.', '')
    # pn53x: chip check disabled in sense_tta, software check selected in send_cmd_recv_rsp
    st = prog.func('nfc.clf.pn53x.Device.sense_tta')
    off = [i for i in walk_no_nested(st.node) if isinstance(i, ast.If) and any(isinstance(x, ast.Expr) and 'CIU_RxMode' in norm(x) and 'write_register' in norm(x) for x in i.body)]
    sr = prog.func('nfc.clf.pn53x.Device.send_cmd_recv_rsp')
    route = [i for i in ast.walk(sr.node) if isinstance(i, ast.If) and any(isinstance(x, ast.Return) and '_tt2_send_cmd_recv_rsp(' in norm(x) for x in i.body)]
    okk = len(off) == 1 and len(route) == 1 and strip(norm(off[0].test)) == strip(norm(route[0].test))
    report.check(okk, rule, key(sr.qname, 'software CRC_A check for exactly the targets whose chip CRC check was switched off'), sr.loc(route[0]) if route else sr.loc(),
                 'sense_tta switches the chip CRC check off for `%s` but send_cmd_recv_rsp routes `%s` to the software check: responses of the targets in '
                 'between are returned without any CRC verification' % (norm(off[0].test) if off else '?', norm(route[0].test) if route else '?'))
    # the routed branch must not be shadowed by an enclosing condition other than "type A target without DEP"
    # rcs380: the same branch sets check_crc = 0 and calls the software check
    # rcs380: send_cmd_recv_rsp folded (checker's own evaluator, chipset modelled) for every SEL_RES of a 106A target and for targets
    # of the other technologies: the chip's CRC check is switched off exactly when the response goes through the software CRC_A check,
    # and that is exactly for Type 2 Tags (SEL_RES bits 6 and 7 clear)
    from ..q import fold_block, FoldObject, NotConst
    r3 = prog.func('nfc.clf.rcs380.Device.send_cmd_recv_rsp')
    body3 = [st for st in r3.node.body if not (isinstance(st, ast.Expr) and isinstance(st.value, ast.Constant))]
    gap, wrong = [], []

    class Tgt(FoldObject):
        pass
    cases = [('106A', bytearray([b])) for b in range(256)] + [('106A', None), ('106A', bytearray()), ('212F', None), ('424F', None), ('106B', None)]
    for brty, sel in cases:
        protocol = []
        t = Tgt()
        t.brty = t.brty_send = t.brty_recv = brty
        t.sel_res = sel
        t.sens_res, t.sensf_res, t.sensb_res, t.atr_res, t.rid_res = bytearray(2), None, None, None, None
        env = {'target': t, 'data': bytearray(b'\x30\x04'), 'timeout': 0.1, 'self.chipset.in_set_protocol_defaults': bytearray(b'\x00\x18'),
               '__calls__': {'self.chipset.in_set_rf': lambda *a, **k: None,
                             'self.chipset.in_set_protocol': lambda *a, **k: protocol.append(dict(k)),
                             'self._tt2_send_cmd_recv_rsp': lambda *a: 'software check', 'self.chipset.in_comm_rf': lambda *a: 'chip check'}}
        try:
            r = fold_block(body3, env)
        except (NotConst, IndexError, TypeError, ValueError, AttributeError) as e:
            r = ('error', '%s: %s' % (type(e).__name__, e))
        what = '%s target, SEL_RES %s' % (brty, ('%02Xh' % sel[0]) if sel else sel)
        if r[0] != 'return' or r[1] not in ('software check', 'chip check'):
            wrong.append('%s: %s %s' % (what, r[0], str(r[1])[:50]))
            continue
        crc_off = any(p_.get('check_crc') == 0 for p_ in protocol)
        if crc_off != (r[1] == 'software check'):
            gap.append('%s: chip CRC check %s, response through the %s' % (what, 'off' if crc_off else 'on', r[1]))
        t2 = brty == '106A' and bool(sel) and sel[0] & 0x60 == 0
        if (r[1] == 'software check') != t2:
            wrong.append('%s %s' % (what, 'takes the Type 2 path' if r[1] == 'software check' else 'does not take the Type 2 path'))
    report.check(not gap and not any('error' in w_ or 'notconst' in w_ for w_ in wrong), rule,
                 key(r3.qname, 'the branch that disables the chip CRC check returns through the software CRC_A check'), r3.loc(),
                 'rcs380 disables check_crc without routing the response through _tt2_send_cmd_recv_rsp: %s' % '; '.join((gap + wrong)[:2]))
    report.check(not wrong, rule, key(r3.qname, 'only Type 2 Tags (SEL_RES bits 6,7 clear) take the software-CRC path'), r3.loc(),
                 '%s: %s: frames of an ISO-DEP / NFC-DEP capable target are returned without CRC verification when they are 1 or 2 byte long'
                 % (r3.qname, '; '.join(wrong[:3])))
    br = []
    # the software-CRC path hands out 1 and 2 byte frames unverified (the 4 bit ACK / NAK of Type 2 Tags): only a Type 2 Tag may
    # take it.  Both routing conditions are folded for every SEL_RES value: true exactly when bits 6 and 7 (ISO 14443-4 / NFC-DEP
    # capability) are clear, so ISO-DEP and NFC-DEP frames are always CRC-checked by the chip.
    for fn, cond in ((sr, route[0].test if route else None), (r3, br[0].test if br else None)):
        if cond is None:
            continue
        bad = []
        for b in range(256):
            v = try_const(cond, {'target.brty': '106A', 'target.sel_res': bytearray([b]), 'target.sel_res[0]': b, 'target.sens_res': bytearray(2),
                                 'target.atr_res': None, 'target.rid_res': None}, default=NotImplemented)
            if v is NotImplemented:
                bad = ['cannot fold `%s`' % norm(cond)]
                break
            if bool(v) != (b & 0x60 == 0):
                bad.append('SEL_RES %02Xh %s' % (b, 'takes the Type 2 path' if v else 'does not take the Type 2 path'))
        report.check(not bad, rule, key(fn.qname, 'only Type 2 Tags (SEL_RES bits 6,7 clear) take the software-CRC path'), fn.loc(),
                     '%s: %s: frames of an ISO-DEP / NFC-DEP capable target are returned without CRC verification when they are 1 or 2 byte long'
                     % (fn.qname, '; '.join(bad[:3])))


def pn53x_frame_ok(v):
    """A byte string written to / expected from a PN53x host link: optional preamble (55h / 00h), then ACK, NACK or a frame with valid
    LEN/LCS, data checksum and postamble (normal or extended).  Returns None if fine, else what is wrong."""
    v = bytes(v)
    i = v.find(b'\x00\x00\xff')
    if i < 0:
        return 'no start of frame'
    if any(b not in (0x00, 0x55) for b in v[:i]):
        return 'junk in front of the start of frame'
    f = v[i:]
    if f in (b'\x00\x00\xff\x00\xff\x00', b'\x00\x00\xff\xff\x00\x00'):
        return None
    if f[3:5] == b'\xff\xff':
        if len(f) < 8 or sum(f[5:8]) & 255:
            return 'extended length checksum'
        ln, body = f[5] * 256 + f[6], f[8:]
    else:
        if len(f) < 5 or (f[3] + f[4]) & 255:
            return 'length checksum (LEN %02Xh, LCS %02Xh)' % (f[3], f[4] if len(f) > 4 else 0)
        ln, body = f[3], f[5:]
    if len(body) != ln + 2:
        return 'length field %d does not match %d data bytes' % (ln, len(body) - 2)
    if sum(body[:ln + 1]) & 255:
        return 'data checksum %02Xh, should be %02Xh' % (body[ln], (256 - sum(body[:ln])) & 255)
    if body[ln + 1] != 0:
        return 'postamble'
    return None


def rule_pn532_init_frames(report, prog):
    """R3: the hand-built frames pn532.init() writes before a Chipset object exists (GetFirmwareVersion, SAMConfiguration,
    SetSerialBaudRate for every selectable baud rate) are well-formed: each `transport.write(x)` argument is folded by the checker
    (templates that are patched by subscript stores included) and run through the frame format."""
    from ..q import fold_lenient
    f = prog.func('nfc.clf.pn532.init')
    n = 0
    bad = []
    for baud in (115200, 230400, 460800, 921600):
        seen = []

        def visit(st, env):
            if isinstance(st, ast.Expr) and isinstance(st.value, ast.Call) and norm(st.value.func) == 'transport.write' and st.value.args:
                v = try_const(st.value.args[0], env, default=NotImplemented)
                seen.append((st, v))
        env = {'baudrate': baud, 'change_baudrate': True, 'transport.TYPE': 'TTY', 'transport.port': '/dev/ttyUSB0', 'sys.platform': 'linux',
               'Chipset.ACK': bytearray.fromhex('0000FF00FF00')}
        fold_lenient(f.node.body, env, seeds=('baudrate', 'change_baudrate'), visit=visit)
        for st, v in seen:
            n += 1
            if v is NotImplemented:
                bad.append('baud rate %d: cannot fold `%s`' % (baud, norm(st)[:60]))
            else:
                why = pn53x_frame_ok(v)
                if why:
                    bad.append('baud rate %d: `%s` writes %s: %s' % (baud, norm(st)[:50], bytes(v).hex(), why))
    report.check(not bad and n >= 8, 'C14-R3', key(f.qname, 'hand-built set-up frames are well-formed for every baud rate'), f.loc(),
                 'pn532.init: %s' % ('; '.join(bad[:2]) if bad else 'only %d frames found' % n), detail='%d written frames folded' % n)


def rule_crc_enforced(report, prog):
    n = 0
    for q, chk, ret_text in (('nfc.clf.pn53x.Device._tt2_send_cmd_recv_rsp', 'self.check_crc_a(data) is False', 'data[:-2] if len(data) > 2 else data'),
                             ('nfc.clf.rcs380.Device._tt2_send_cmd_recv_rsp', 'self.check_crc_a(data) is False', 'data[:-2] if len(data) > 2 else data'),
                             ('nfc.clf.pn532.Device._tt1_send_cmd_recv_rsp', 'self.check_crc_b(data) is False', None),
                             ('nfc.clf.pn533.Device._tt1_send_cmd_recv_rsp', 'self.check_crc_b(data) is False', None)):
        f = prog.func(q)
        cfg = cfg_of(f)
        if 'tt2' in q:
            # the Type 2 path folded (checker's own evaluator) with the chipset exchange and the CRC check modelled: responses of 0..2
            # octets pass through as they are, longer ones only when the CRC check says so and then without the two CRC octets,
            # anything else raises TransmissionError
            from ..q import fold_block, NotConst
            n += 1
            body = [st for st in f.node.body if not (isinstance(st, ast.Expr) and isinstance(st.value, ast.Constant))]
            bad = []
            checked = []
            for ln in (0, 1, 2, 3, 4, 18):
                for good in (True, False):
                    rsp = bytes((i * 9 + 5) & 0xFF for i in range(ln))
                    del checked[:]

                    def crc(d, good=good):
                        checked.append(bytes(d))
                        return good
                    env = {f.params[1] if len(f.params) > 1 else 'data': bytearray(b'\x30\x00'), f.params[2] if len(f.params) > 2 else 'timeout': 0.1,
                           '__calls__': {'self.chipset.in_communicate_thru': lambda *a: bytearray(rsp), 'self.chipset.in_comm_rf': lambda *a: bytearray(rsp),
                                         'self.check_crc_a': crc}}
                    try:
                        r = fold_block(body, env)
                    except (NotConst, IndexError, TypeError, ValueError) as e:
                        r = ('error', '%s: %s' % (type(e).__name__, e))
                    if ln <= 2:
                        want = ('return', rsp)
                    elif good:
                        want = ('return', rsp[:-2])
                    else:
                        want = ('raise', 'nfc.clf.TransmissionError')
                    okk = (r[0] == want[0] == 'return' and r[1] is not None and bytes(r[1]) == want[1]) or \
                        (r[0] == want[0] == 'raise' and r[1].startswith(want[1]))
                    if okk and ln > 2 and checked != [rsp]:
                        okk = False
                    if not okk:
                        bad.append('%d octet response, CRC %s: %s %s (CRC computed over %s)' % (ln, 'good' if good else 'bad', r[0], str(r[1])[:40], [c_.hex() for c_ in checked]))
            report.check(not bad, 'C14-R6', key(q, 'data returned only on the branch where the CRC check passed'), f.loc(),
                         '%s can return tag data without a passed CRC check: %s' % (q, '; '.join(bad[:2])))
            report.check(not any('CRC bad' in b_ for b_ in bad), 'C14-R6', key(q, 'CRC failure raises TransmissionError'), f.loc(),
                         'CRC failure is not reported as TransmissionError: %s' % '; '.join(b_ for b_ in bad if 'CRC bad' in b_)[:200])
            report.check(not any('CRC good' in b_ for b_ in bad), 'C14-R6', key(q, 'CRC bytes stripped only when present'), f.loc(),
                         'return expression changed: %s' % '; '.join(b_ for b_ in bad if 'CRC good' in b_)[:200])
            continue
        edges = [(t, 'false') for e, t in cfg.test_nodes.items() if norm(e) == chk]
        if 'tt2' in q:
            edges += [(t, 'false') for e, t in cfg.test_nodes.items() if norm(e) == 'len(data) > 2']
            rets = [x for x in cfg.nodes if x.kind == 'stmt' and isinstance(x.ast, ast.Return)]
        else:
            rets = [x for x in cfg.nodes if x.kind == 'stmt' and isinstance(x.ast, ast.Return) and 'bytearray(data[' in norm(x.ast)]
        n += 1
        okk = bool(rets) and bool(edges)
        if okk:
            for r in rets:
                o, p = only_via(cfg, r, edges, ps=False)
                okk = okk and o
        report.check(okk, 'C14-R6', key(q, 'data returned only on the branch where the CRC check passed'), f.loc(),
                     '%s can return tag data without a passed CRC check' % q)
        raises = [x for t, l in edges if isinstance(t.owner, ast.If) for x in t.owner.body if isinstance(x, ast.Raise)]
        report.check(bool(raises) and all('nfc.clf.TransmissionError' in norm(x) for x in raises), 'C14-R6',
                     key(q, 'CRC failure raises TransmissionError'), f.loc(), 'CRC failure is not reported as TransmissionError')
        if ret_text:
            report.check(any(norm(r.ast.value) == ret_text for r in rets), 'C14-R6', key(q, 'CRC bytes stripped only when present'), f.loc(),
                         'return expression changed')
        if 'tt1' in q:
            add = [c for c in ast.walk(f.node) if isinstance(c, ast.Call) and norm(c.func) == 'self.add_crc_b']
            report.check(len(add) >= 1, 'C14-R6', key(q, 'CRC_B appended to the command'), f.loc(), 'CRC_B is not appended to the TT1 command')
    report.floor('C14-R6', n, 4)


def rule_frame_envelope(report, prog, rule='C14-R1'):
    """A chipset class that overrides write_frame() puts every host frame into an envelope of its own (the Arygon readers prefix each
    frame with '2').  The shared Chipset.command() serves such a class only if everything it reaches hands frames to the transport
    through that override: in the callee closure of command(), rooted at each overriding class, no other function writes to
    self.transport (a helper that writes the bare ACK frame bypasses the envelope and the reader's controller drops or misreads it)."""
    from ..resolve import Resolver, Ctx
    from ..callgraph import closure
    res = Resolver(prog)
    base = prog.cls(X + '.Chipset')
    cmd = base.methods.get('command')
    n = 0
    for c in prog.subclasses(base, strict=True):
        if 'write_frame' not in c.methods:
            continue
        n += 1
        own = c.methods['write_frame'].qname
        reach = closure(prog, res, prog.lookup(c, 'command') or cmd, Ctx(c))
        bad = []
        for q, (f, chain) in sorted(reach.items()):
            if q == own:
                continue
            for call in ast.walk(f.node):
                if isinstance(call, ast.Call) and norm(call.func) in ('self.transport.write', 'transport.write'):
                    bad.append((q, f, call, chain))
        report.check(not bad, rule, key(c.qname, 'command() writes host frames only through the write_frame() envelope of the class'),
                     bad[0][1].loc(bad[0][2]) if bad else c.loc() if hasattr(c, 'loc') else None,
                     '%s overrides write_frame() but command() reaches %s, which writes to the transport directly (%s): the frame leaves without the envelope'
                     % (c.qname, bad[0][0] if bad else '', ' -> '.join(bad[0][3][-3:]) if bad else ''),
                     detail='%d functions reachable from command()' % len(reach))
    report.floor(rule + ' chipset classes with a frame envelope', n, 2)


def run(report, prog, tier):
    rule_pn53x_build(report, prog)
    rule_frame_envelope(report, prog)
    rule_pn53x_accept(report, prog)
    rule_acr122(report, prog)
    rule_rcs380(report, prog)
    rule_crc(report, prog)
    rule_crc_enforced(report, prog)
    rule_crc_routing(report, prog)
    rule_pn532_init_frames(report, prog)
    report.trusted += ['PN53x host link frame format (NXP UM0701-02 6.2.1), RC-S380 frame format, CCID RDR_to_PC_DataBlock layout as '
                       'encoded in the checker\'s independent validators', 'struct semantics of the checker interpreter']
    report.assumptions += ['frames are evaluated from the extracted expressions by the checker\'s evaluator; the repository is not executed']


X = 'nfc.clf.pn53x'
MUTANTS = [
    ('pn53x-cancel-ack-bypasses-envelope', 'nfc.clf.pn53x', "                    self.write_frame(self.ACK)  # cancel command", "                    self.send_ack()  # cancel command", 'C14-R1'),
    ('acr122-second-read-unchecked', 'nfc.clf.acr122', """            log.error("RDR_to_PC_DataBlock length mismatch")
            raise IOError(errno.EIO, os.strerror(errno.EIO))
        return frame[10:]""", """            log.error("RDR_to_PC_DataBlock length mismatch")
            raise IOError(errno.EIO, os.strerror(errno.EIO))
        if frame[7] & 0xC0 == 0x80:
            frame = self.transport.read(int(timeout * 1000))
        return frame[10:]""", 'C14-R3'),
    ('pn532-init-baudrate-checksum', 'nfc.clf.pn532', "            set_baudrate_cmd[8] = 256 - sum(set_baudrate_cmd[5:8])", "            set_baudrate_cmd[8] = 256 - sum(set_baudrate_cmd[6:8])", 'C14-R3'),
    ('pn532-init-sam-frame-literal', 'nfc.clf.pn532', 'bytearray.fromhex("0000ff05fbd4140100001700")', 'bytearray.fromhex("0000ff05fbd4140100001600")', 'C14-R3'),
    ('pn53x-resync-on-start-of-frame', 'nfc.clf.pn53x', """        if frame.startswith(self.SOF + b'\\xFF\\xFF'):
            # extended frame""", """        if frame.find(self.SOF) > 0:
            del frame[0:frame.find(self.SOF)]

        if frame.startswith(self.SOF + b'\\xFF\\xFF'):
            # extended frame""", 'C14-R2'),
    ('lcs-253', X, "+ bytearray([254-len(cmd_data)])", "+ bytearray([253-len(cmd_data)])", 'C14-R1'),
    ('format-switch-255', X, "if len(cmd_data) < 254:", "if len(cmd_data) < 255:", 'C14-R1'),
    ('ext-len-without-tfi', X, 'head = self.SOF + b\'\\xFF\\xFF\' + pack(">H", len(cmd_data)+2)', 'head = self.SOF + b\'\\xFF\\xFF\' + pack(">H", len(cmd_data)+1)', 'C14-R1'),
    ('ext-len-little-endian', X, 'head = self.SOF + b\'\\xFF\\xFF\' + pack(">H", len(cmd_data)+2)', 'head = self.SOF + b\'\\xFF\\xFF\' + pack("<H", len(cmd_data)+2)', 'C14-R1'),
    ('dcs-without-tfi', X, "tail = bytearray([(256 - sum(data)) & 0xFF, 0])", "tail = bytearray([(256 - sum(cmd_data)) & 0xFF, 0])", 'C14-R1'),
    ('ext-lcs-one-byte', X, "head.append((256 - sum(head[-2:])) & 0xFF)", "head.append((256 - sum(head[-1:])) & 0xFF)", 'C14-R1'),
    ('dcs-check-dropped', X, """        if not sum(frame) & 0xFF == 0:
            self.log.error("frame data checksum error")
            raise IOError(errno.EIO, os.strerror(errno.EIO))
""", "", 'C14-R2'),
    ('lcs-check-dropped', X, """            if len(frame) < 5 or sum(frame[3:5]) & 0xFF != 0:
                self.log.error("frame lenght checksum error")
                raise IOError(errno.EIO, os.strerror(errno.EIO))
""", "", 'C14-R2'),
    ('len-check-dropped', X, """            if frame[3] != len(frame) - 7:
                self.log.error("frame lenght value mismatch")
                raise IOError(errno.EIO, os.strerror(errno.EIO))
""", "", 'C14-R2'),
    ('tfi-check-logs-only', X, """        if not frame[0] == 0xD5:
            self.log.error("invalid frame identifier")
            raise IOError(errno.EIO, os.strerror(errno.EIO))
""", """        if not frame[0] == 0xD5:
            self.log.error("invalid frame identifier")
""", 'C14-R2'),
    ('code-check-dropped', X, """        if not frame[1] == cmd_code + 1:
            self.log.error("unexpected response code")
            raise IOError(errno.EIO, os.strerror(errno.EIO))
""", "", 'C14-R2'),
    ('len-offset-6', X, "if frame[3] != len(frame) - 7:", "if frame[3] != len(frame) - 6:", 'C14-R2'),
    ('ext-del-7', X, "            del frame[0:8]", "            del frame[0:7]", 'C14-R2'),
    ('dcs-raises-valueerror', X, """            self.log.error("frame data checksum error")
            raise IOError(errno.EIO, os.strerror(errno.EIO))""", """            self.log.error("frame data checksum error")
            raise ValueError("frame data checksum error")""", 'C14-R2'),
    ('short-header-unguarded', X, "if len(frame) < 8 or sum(frame[5:8]) & 0xFF != 0:", "if sum(frame[5:8]) & 0xFF != 0:", 'C14-R2'),
    ('return-with-dcs', X, "        return frame[2:-2]\n\n    def write_frame", "        return frame[2:-1]\n\n    def write_frame", 'C14-R2'),
    ('ccid-header-9', 'nfc.clf.acr122', 'frame = struct.pack("<BI5B", 0x6F, len(data), 0, 0, 0, 0, 0) + data', 'frame = struct.pack("<BI4B", 0x6F, len(data), 0, 0, 0, 0) + data', 'C14-R3'),
    ('ccid-len-check-dropped', 'nfc.clf.acr122', """        if len(frame) != 10 + struct.unpack("<I", memoryview(frame)[1:5])[0]:
            log.error("RDR_to_PC_DataBlock length mismatch")
            raise IOError(errno.EIO, os.strerror(errno.EIO))
""", "", 'C14-R3'),
    ('acr-status-check-dropped', 'nfc.clf.acr122', """        if not (frame[-2] == 0x90 and frame[-1] == 0x00):
            log.error("received pseudo apdu with error status")
            raise IOError(errno.EIO, os.strerror(errno.EIO))
""", "", 'C14-R3'),
    ('acr-code-check-weak', 'nfc.clf.acr122', "if not (frame[0] == 0xD5 and frame[1] == cmd_code + 1):", "if not (frame[0] == 0xD5 or frame[1] == cmd_code + 1):", 'C14-R3'),
    ('rcs380-lcs', 'nfc.clf.rcs380', 'frame += bytearray(struct.pack("B", (256 - sum(frame[5:7])) % 256))', 'frame += bytearray(struct.pack("B", (255 - sum(frame[5:7])) % 256))', 'C14-R4'),
    ('rcs380-dcs-range', 'nfc.clf.rcs380', "frame += bytearray([(256 - sum(frame[8:])) % 256, 0])", "frame += bytearray([(256 - sum(frame[7:])) % 256, 0])", 'C14-R4'),
    ('rcs380-len-be', 'nfc.clf.rcs380', 'frame += bytearray(struct.pack("<H", len(data)))', 'frame += bytearray(struct.pack(">H", len(data)))', 'C14-R4'),
    ('crc-a-init', 'nfc.clf.device', """        crc = calculate_crc(data, len(data)-2, 0x6363)""", """        crc = calculate_crc(data, len(data)-2, 0x6364)""", 'C14-R5'),
    ('crc-b-no-complement', 'nfc.clf.device', """        crc = ~calculate_crc(data, len(data)-2, 0xFFFF) & 0xFFFF""", """        crc = calculate_crc(data, len(data)-2, 0xFFFF) & 0xFFFF""", 'C14-R5'),
    ('crc-poly', 'nfc.clf.device', "reg = reg ^ 0x8408", "reg = reg ^ 0x8404", 'C14-R5'),
    ('crc-msb-first', 'nfc.clf.device', "bit = (reg ^ ((octet >> pos) & 1)) & 1", "bit = (reg ^ ((octet >> (7 - pos)) & 1)) & 1", 'C14-R5'),
    ('crc-check-covers-crc', 'nfc.clf.device', """        crc = calculate_crc(data, len(data)-2, 0x6363)""", """        crc = calculate_crc(data, len(data)-1, 0x6363)""", 'C14-R5'),
    ('crc-byte-order', 'nfc.clf.device', """        crc = ~calculate_crc(data, len(data), 0xFFFF) & 0xFFFF
        return data + bytearray([crc & 0xff, crc >> 8])""", """        crc = ~calculate_crc(data, len(data), 0xFFFF) & 0xFFFF
        return data + bytearray([crc >> 8, crc & 0xff])""", 'C14-R5'),
    ('tt2-crc-not-enforced', X, """        if len(data) > 2 and self.check_crc_a(data) is False:
            raise nfc.clf.TransmissionError("crc_a check error")""", """        if len(data) > 2 and self.check_crc_a(data) is False:
            self.log.debug("crc_a check error")""", 'C14-R6'),
    ('tt2-crc-is-none', 'nfc.clf.rcs380', "if len(data) > 2 and self.check_crc_a(data) is False:", "if len(data) > 2 and self.check_crc_a(data) is None:", 'C14-R6'),
    ('tt1-crc-not-enforced', 'nfc.clf.pn533', """        if self.check_crc_b(data) is False:
            raise nfc.clf.TransmissionError("crc_b check error")
        return bytearray(data[:-2])""", """        return bytearray(data[:-2])""", 'C14-R6'),
    ('tt2-software-crc-only-for-sel-res-00', 'nfc.clf.pn53x', "                if target.sel_res[0] & 0x60 == 0x00:  # TT2", "                if target.sel_res[0] == 0x00:  # TT2", 'C14-R7'),
    ('chip-crc-off-for-more-targets', 'nfc.clf.pn53x', """            if sel_res[0] & 0x60 == 0x00:
                self.log.debug("disable crc check for type 2 tag")""", """            if sel_res[0] & 0x40 == 0x00:
                self.log.debug("disable crc check for type 2 tag")""", 'C14-R7'),
]

EXPLANATION += ' Round 5: for chipset classes that override write_frame() nothing else in the callee closure of command() writes to the transport (frame envelope).'
