#!/venv/bin/python
# -*- coding: utf-8 -*-
"""Entry point:  ./check.py <Cxx> [--thorough] [--replay FILE]

Static analysis only: parses /repo/src/nfc with `ast` on every run; nothing from the
repository is imported or executed.  Exit 0 clean (KNOWN-FINDING lines allowed),
1 with VIOLATION lines, 2 with ANALYSIS-ERROR."""
import importlib
import json
import os
import sys
import time
import traceback

sys.path.insert(0, os.path.dirname(os.path.abspath(__file__)))

from nfcsa.model import Program, AnalysisError      # noqa: E402
from nfcsa.core import Report, finish               # noqa: E402


def main(argv):
    t0 = time.time()
    args = [a for a in argv[1:] if not a.startswith('--')]
    if not args:
        print(__doc__)
        return 2
    prop = args[0].upper()
    tier = 'thorough' if ('--thorough' in argv or os.environ.get('VERIF_TIER') == 'thorough') else 'quick'
    seed = int(os.environ.get('VERIF_SEED', '0') or 0)
    replay = None
    if '--replay' in argv:
        replay = argv[argv.index('--replay') + 1]
    try:
        mod = importlib.import_module('nfcsa.rules.' + prop.lower())
        prog = Program()
        report = Report(prop, prog)
        for unit, mapping in prog.renamed:
            print('NOTE: local variables of %s differ from the reference tree by renaming only (%s); reports use the reference names'
                  % (unit, ', '.join('%s was %s' % (a, b) for a, b in sorted(mapping.items()))))
        for unit, n_sites in prog.inlined:
            print('NOTE: %s does not exist in the reference tree; it is analysed expanded at its %d call site(s) (extract-helper refactoring)' % (unit, n_sites))
        report.stats['renamed_locals'] = len(prog.renamed)
        report.stats['expanded_helpers'] = len(prog.inlined)
        report.stats['modules'] = len(prog.modules)
        report.stats['classes'] = len(prog.classes)
        report.stats['functions'] = len(prog.functions)
        report.stats['source_lines'] = sum(len(m.lines) for m in prog.modules.values())
        mod.run(report, prog, tier)
        if tier == 'thorough' and hasattr(mod, 'MUTANTS'):
            from nfcsa.selftest import run_selftest
            report.selftest = run_selftest(prop, mod)
        if replay:
            with open(replay) as f:
                want = json.load(f)['failure']
            hit = [f for f in report.failures if f.rule == want['rule'] and f.key == want['key']]
            if hit:
                f = hit[0]
                print('  %s %s: %s' % (f.loc, f.rule, f.message))
                print('VIOLATION property=%s replay=%s' % (prop, replay))
                return 1
            print('replay: obligation %s %s holds on the current tree' % (want['rule'], want['key']))
            return 0
        return finish(report, tier, getattr(mod, 'LEVEL', 'other'), mod.EXPLANATION, t0, seed)
    except AnalysisError as e:
        print('ANALYSIS-ERROR %s: %s' % (prop, e))
        return 2
    except Exception:
        traceback.print_exc()
        print('ANALYSIS-ERROR %s: internal error in the checker (see traceback)' % prop)
        return 2


if __name__ == '__main__':
    sys.exit(main(sys.argv))
