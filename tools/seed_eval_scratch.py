#!/usr/bin/env python3
"""First evaluation of candidate seeded changes without touching /repo: each patch (a directory with patch.diff) is applied to a
scratch copy of /repo under /dev/shm and the quick check of its property (or all 20 with --all) is run with NFCSA_REPO pointing
there.  Usage: tools/seed_eval_scratch.py [--all] <dir-with-Cxx/n/patch.diff> [Cxx/n ...].  Tooling only -- not a registered check."""
import json, os, re, shutil, subprocess, sys, tempfile
from concurrent.futures import ThreadPoolExecutor
HERE = os.path.dirname(os.path.dirname(os.path.abspath(__file__)))
ALL = ['C%02d' % i for i in range(1, 21)]


def one(args):
    root, item, everything = args
    prop = item.split('/')[0]
    t = tempfile.mkdtemp(prefix='se_', dir='/dev/shm' if os.path.isdir('/dev/shm') else None)
    try:
        repo = os.path.join(t, 'repo')
        subprocess.run(['rsync', '-a', '--exclude', '.git', '--exclude', 'tests', '--exclude', 'docs', '/repo/', repo + '/'], check=True)
        r = subprocess.run(['patch', '-p1', '-s', '-i', os.path.join(root, item, 'patch.diff')], cwd=repo, stdout=subprocess.PIPE, stderr=subprocess.STDOUT, text=True)
        if r.returncode != 0:
            return item, {'applied': False, 'error': r.stdout[-200:]}
        env = dict(os.environ, NFCSA_REPO=repo, NFCSA_EVIDENCE_DIR=os.path.join(t, 'ev'))
        os.makedirs(env['NFCSA_EVIDENCE_DIR'])
        out = {}
        for c in (ALL if everything else [prop]):
            p = subprocess.run([os.path.join(HERE, 'check.py'), c], cwd=HERE, env=env, stdout=subprocess.PIPE, stderr=subprocess.STDOUT, text=True)
            first = [l.strip()[:260] for l in p.stdout.splitlines() if re.match(r'^\s+\S+:\d+ C\d\d-R', l) or 'ANALYSIS-ERROR' in l or 'Traceback' in l]
            if p.returncode != 0 or c == prop:
                out[c] = {'exit': p.returncode, 'first': first[:3], 'rules': sorted(set(re.findall(r'^\s+\S+:\d+ (C\d\d-R\w+):', p.stdout, re.M))),
                          'violations': p.stdout.count('VIOLATION property='), 'analysis_error': 'ANALYSIS-ERROR' in p.stdout}
        return item, out
    finally:
        shutil.rmtree(t, ignore_errors=True)


def main(argv):
    everything = '--all' in argv
    a = [x for x in argv[1:] if not x.startswith('--')]
    root, sel = a[0], a[1:]
    items = sel or sorted('%s/%s' % (p, n) for p in os.listdir(root) if os.path.isdir(os.path.join(root, p))
                          for n in os.listdir(os.path.join(root, p)) if os.path.exists(os.path.join(root, p, n, 'patch.diff')) and not os.path.exists(os.path.join(root, p, n, 'OBSOLETE')))
    with ThreadPoolExecutor(max_workers=10) as ex:
        res = list(ex.map(one, [(root, i, everything) for i in items]))
    hit = 0
    for item, out in res:
        prop = item.split('/')[0]
        own = out.get(prop, {})
        det = own.get('exit') == 1
        hit += det
        others = [c for c, v in out.items() if c != prop and v.get('exit')]
        print('%s  %s  own exit=%s %s' % (item, 'DETECTED' if det else 'MISSED  ', own.get('exit', out), ('also: ' + ' '.join(others)) if others else ''))
        for l in own.get('first', [])[:2]:
            print('      ' + l)
    print('%d candidates, %d detected by their own check' % (len(res), hit))
    if '--results' in argv:
        # the format of tools/seed_eval.py (seeded/RESULTS.json, read by tools/gen_status.py)
        path = os.path.join(root, 'RESULTS.json')
        results = json.load(open(path)) if (sel and os.path.exists(path)) else {}
        for item, out in res:
            prop = item.split('/')[0]
            if out.get('applied') is False:
                results[item] = {'applied': False, 'error': out.get('error', '')}
                continue
            own = out.get(prop, {})
            results[item] = {'applied': True, 'own': {k: own.get(k) for k in ('exit', 'rules', 'violations', 'analysis_error', 'first')},
                             'others': {c: {'exit': v['exit'], 'rules': v.get('rules', [])} for c, v in out.items() if c != prop and v.get('exit')},
                             'verdict': 'DETECTED' if own.get('exit') == 1 else ('ANALYSIS-ERROR' if own.get('exit') == 2 else 'MISSED')}
        json.dump(results, open(path, 'w'), indent=1, sort_keys=True)
    else:
        json.dump(dict(res), open(os.path.join(root, 'EVAL.json'), 'w'), indent=1, sort_keys=True)


if __name__ == '__main__':
    main(sys.argv)
