#!/usr/bin/env python3
"""Run every check on every behaviour-preserving refactoring of benign_corpus/ (produced by independent sub-agents, each with a
demonstration that the observable behaviour is unchanged) and list the checks that do not exit 0.  Each patch is applied to a scratch
copy of /repo outside /repo and /verif (removed afterwards).  Tooling only -- not a registered check.
Usage: [BENIGN_CORPUS=benign_holdout] tools/benign_eval.py [Cxx/N ...]"""
import json, os, shutil, subprocess, sys, tempfile
from concurrent.futures import ThreadPoolExecutor
HERE = os.path.dirname(os.path.dirname(os.path.abspath(__file__)))
CORPUS = os.path.join(HERE, os.environ.get('BENIGN_CORPUS', 'benign_corpus'))     # BENIGN_CORPUS=benign_holdout: the second, held-out round
ALL = ['C%02d' % i for i in range(1, 21)]


def one(item):
    d = os.path.join(CORPUS, item)
    t = tempfile.mkdtemp(prefix='bn_', dir='/dev/shm' if os.path.isdir('/dev/shm') else None)
    try:
        repo = os.path.join(t, 'repo')
        subprocess.run(['rsync', '-a', '--exclude', '.git', '--exclude', 'tests', '--exclude', 'docs', '/repo/', repo + '/'], check=True)
        r = subprocess.run(['patch', '-p1', '-s', '-i', os.path.join(d, 'patch.diff')], cwd=repo, stdout=subprocess.PIPE, stderr=subprocess.STDOUT, text=True)
        if r.returncode != 0:
            return item, None, {'patch': r.stdout[-200:]}
        env = dict(os.environ, NFCSA_REPO=repo, NFCSA_EVIDENCE_DIR=os.path.join(t, 'ev'))
        os.makedirs(env['NFCSA_EVIDENCE_DIR'])
        bad = {}
        for c in ALL:
            p = subprocess.run([os.path.join(HERE, 'check.py'), c], cwd=HERE, env=env, stdout=subprocess.PIPE, stderr=subprocess.STDOUT, text=True)
            if p.returncode != 0:
                lines = [l.strip() for l in p.stdout.splitlines() if (' %s-R' % c) in l or 'ANALYSIS-ERROR' in l or 'Error' in l]
                bad[c] = (p.returncode, lines[:4])
        return item, bad, None
    finally:
        shutil.rmtree(t, ignore_errors=True)


def main(argv):
    items = argv[1:] or sorted('%s/%s' % (p, n) for p in os.listdir(CORPUS) if os.path.isdir(os.path.join(CORPUS, p)) for n in os.listdir(os.path.join(CORPUS, p)))
    with ThreadPoolExecutor(max_workers=12) as ex:
        res = list(ex.map(one, items))
    quiet = 0
    for item, bad, err in res:
        if err:
            print('%s  PATCH DOES NOT APPLY %s' % (item, err))
        elif not bad:
            quiet += 1
            print('%s  silent' % item)
        else:
            print('%s  ALARMS %s' % (item, ' '.join('%s(exit %d)' % (c, v[0]) for c, v in sorted(bad.items()))))
            for c, v in sorted(bad.items()):
                for l in v[1]:
                    print('      [%s] %s' % (c, l[:230]))
    print('%d refactorings, %d silent in all 20 checks' % (len(res), quiet))
    path = os.path.join(CORPUS, 'RESULTS.json')
    old = json.load(open(path)) if (argv[1:] and os.path.exists(path)) else {}      # a selective run updates its items only
    old.update({i: (sorted(b) if b is not None else None) for i, b, e in res})
    json.dump(old, open(path, 'w'), indent=1, sort_keys=True)


if __name__ == '__main__':
    main(sys.argv)
