#!/usr/bin/env python3
"""Regenerates /verif/MANIFEST.json from the table below (keeps it schema-valid)."""
import json, os
HERE = os.path.dirname(os.path.dirname(os.path.abspath(__file__)))
ALL = ['C%02d' % i for i in range(1, 21)]
CLAIMED = {
 'C15': dict(
  category='proof',
  text='Proof of the per-call-site formulation the property itself gives: every syntactic use of self.device in '
       'ContactlessFrontend (methods and closures) is classified and every driver call is shown to execute with '
       'self.lock held and after a device-is-None test inside the same locked region; stores to self.device are '
       'locked; no other module calls through clf.device; the lock is non-reentrant and no locked region re-enters. '
       'All obligations must be discharged; a fixture twin keeps the rules honest.',
  design_ref='DESIGN.md section 3 C15',
  note='Trusted: Python with-statement semantics, threading.Lock, the ast of the source is the program that runs; '
       'applications that touch clf.device directly and user callbacks are out of scope.',
  technique='lexical lock-set analysis + CFG dominance (ast)'),
}
CLAIMED['C11'] = dict(
  category='other',
  text='Decides the structural clauses of encode/decode consistency from the source: symbolic encoded length == __len__ for all 15 PDU '
       'classes; omitted-parameter guards evaluated over the whole field domain against the decode defaults; window discipline of every '
       'read in decode()/decode_header(); dispatch-table, header/sequence/FRMR bit-field and TLV format agreement between writer and '
       'reader (finite domains enumerated exhaustively by the checker on the extracted expressions); recursion bound of the decode cone. '
       'It does not decide decode(encode(p)) == p for payload bytes or agreement with an independent decoder on arbitrary strings.',
  design_ref='DESIGN.md section 3 C11',
  note='Trusted: struct format semantics of the checker interpreter; the induction len(x.encode()) == len(x) for aggregated sub-PDUs; '
       'field domains RW 0..15, MIU 128..2175, SAP 0..63. Known findings (TLV/sub-PDU window, unbounded AGF nesting) are listed in known_findings.json.',
  technique='symbolic length + writer/reader table agreement + CFG bound analysis (ast)')
CLAIMED['C05'] = dict(
  category='other',
  text='Decides the structural clauses that make the window/sequence mechanism of a data link connection sound on every path: the I-PDU '
       'creation, N(S) assignment and V(S) increment sit behind the window-wait loop and the ESTABLISHED test; EMSGSIZE guards dominate PDU '
       'creation; a received I PDU is handed over and V(R) incremented only if N(S)==V(R) and the size test passed (path-sensitive CFG '
       'reachability); all sequence arithmetic is modulo 16 and the window-slot formulas equal the LLCP definition on all 4096 inputs; '
       'sequence state is written under the socket lock; waits re-test in a loop; queues are FIFO. Order/exactly-once over all '
       'interleavings is a schedule-quantified trace property and is not decided by this family.',
  design_ref='DESIGN.md section 3 C05',
  note='Trusted: Condition(self.lock) aliasing, with-statement semantics, constructor results are truthy (flag refinement). '
       'Does not explore thread schedules or histories.',
  technique='CFG dominance / path-sensitive reachability + lock sets + finite evaluation of extracted arithmetic (ast)')
CLAIMED['C09'] = dict(
  category='other',
  text='Decides, for every path and every wait site, the structural conditions without which a thread can be left blocked: terminate() reaches '
       'the SAP shutdown on every exit including exceptional ones (exception-escape analysis feeding the CFG); every exception class that can '
       'leave the run-loop bodies meets a handler that terminates the link; close()/shutdown() notify_all() every Condition under the lock and '
       'set the state the waiters re-test; every untimed wait() sits in a locked region in which the shutdown state was tested (in the function '
       'or in every caller holding the re-entrant lock), loops around waits re-test it, callers map the IndexError of a closed socket; SAP table '
       'dereferences from application threads are None-tested under the lock; service threads catch nfc.llcp.Error and close their sockets. '
       'Bounded time and enumeration of schedules are not decided.',
  design_ref='DESIGN.md section 3 C09',
  note='Assume/guarantee: ContactlessFrontend.exchange raises only CommunicationError subclasses or IOError (C13). Trusted: RLock re-entrancy, '
       'Condition.wait releases the lock. 10 infeasible may-raise reports are suppressed one by one in nfcsa/rules/c09.py with anchor-checked reasons.',
  technique='exception-escape analysis + CFG must-pass-through + lock-region wait discipline (ast)')
CLAIMED['C10'] = dict(
  category='other',
  text='Decides the budget arithmetic behind the MIU limit on every path: each subtraction from the budget in ServiceDiscovery.dequeue is '
       'dominated by a guard proving the budget covers the cost (CFG lower-bound analysis) and the per-item costs equal the terms of '
       'ServiceNameLookup.__len__; __len__ == encoded length for all 15 PDU classes (the collector budgets with len()); the aggregation budget '
       'is send-miu - len(agf) - k with k >= the largest header, recomputed after every append, and every aggregation-phase dequeue runs with a '
       'proven non-negative budget; each dequeue implementation returns a PDU only where its information field (+ICV) was compared with '
       'miu_size; EMSGSIZE gates dominate PDU creation and the link MIU is copied/clamped into sockets. Receiver-side transparency of '
       'aggregation is not decided.',
  design_ref='DESIGN.md section 3 C10',
  note='Raw access point sockets bypass the limit by design (named in the property). Trusted: struct sizes; len(x.encode()) == len(x) induction.',
  technique='CFG lower-bound/dominance analysis + symbolic length agreement + finite-grid folding of encode/decode pairs (ast)')
CLAIMED['C17'] = dict(
  category='other',
  text='Decides per-site structural clauses of the addressing scheme: every store that creates a service access point is reached only after '
       'the slot was tested free or its index was taken from .index(None) over the matching slice (CFG reachability), under the link lock, '
       'and only the bind/remove/terminate functions write the table; the range constants of the three bind forms, the well-known map and the '
       'table size are mutually consistent; a registered service name is released where the address is freed; the errno values that bind() '
       'can raise are enumerated; dispatch, connect-by-name rewriting, recvfrom and service-discovery answers use the keys the property '
       'names; a bound socket is refused before any table update. Allocation over long histories against a reference model is not decided.',
  design_ref='DESIGN.md section 3 C17',
  note='Known finding: EADDRNOTAVAIL on exhaustion of 16..31 (asserted by the pinned suite). Two defects repaired (name never released; '
       'well-known bind overwrote an occupied address).',
  technique='CFG dominance/reachability + constant-table agreement (ast)')
CLAIMED['C19'] = dict(
  category='other',
  text='Decides provenance and table agreement of the negotiated limits from the source: def-use shows the LLCP sending limits and the NFC-DEP '
       'payload limits are taken from the decode of what the peer announced (never from local options) and that our announcements take the '
       'local options, omitted exactly for the decode defaults; the LR/BRS/bit-rate tables, PP/PPI bit positions, clamps, WT mask and RWT '
       'formulas are evaluated by the checker over the whole option grid on the extracted expressions; option pass-through from connect() '
       'and the LLC constructor is enumerated; the NFC-DEP payload budget equals LR minus the symbolic overhead of the DEP PDU encoder '
       'including the DID/NAD bytes a role can use. Agreement of two live stacks over the grid is not decided.',
  design_ref='DESIGN.md section 3 C19',
  note='Trusted: NFC-DEP LR semantics (transport data field), LLCP parameter defaults. One defect repaired (Target ignored the DID byte).',
  technique='def-use provenance + finite evaluation of extracted table expressions + symbolic length (ast)')
CLAIMED['C04'] = dict(
  category='other',
  text='Decides the structural clauses of the NFC-DEP exchange machinery: the chaining loops slice and delete the same width (fragments '
       'partition the payload) and compute the more flag from what remains; every packet-number increment is modulo 4 and tied to the '
       'PNI comparison whose failing branch raises ProtocolError; the PFB byte layout of encoder and decoder is inverse on all 96 '
       'combinations; frames are accepted only behind start-byte/length/code checks and dispatch codes equal the PDU_CODE of the class '
       'they reach; the recovery rules (resend on repeated PNI/NAK, ATN, DID filter, timeout->ATN, transmission error->NAK) are present; '
       'the payload budget equals LR minus encoder overhead; only CommunicationError/IOError (and argument errors raised in the entry '
       'function) leave exchange/activate/deactivate by explicit raise paths; every loop has a recognised progress argument. '
       'Exactly-once under fault scripts is a trace property of two coupled machines and is not decided.',
  design_ref='DESIGN.md section 3 C04',
  note='Assume/guarantee: clf.exchange raises only CommunicationError subclasses or IOError (C13). Implicit IndexError sites on short frames are '
       'the subject of C07. Loop-progress kinds are an enumerated table of the idioms in nfc/dep.py.',
  technique='CFG dominance + finite evaluation of bit layouts + exception-escape analysis + loop-progress classification (ast)')
CLAIMED['C14'] = dict(
  category='other',
  text='Frame construction: the PN53x command-frame and RC-S380 frame expressions are extracted and evaluated by the checker for every '
       'payload length (both PN53x formats, all chip maxima) and validated by an independent reading of the frame formats. Acceptance: response '
       'data is returned only through the passing branch of every framing check, every failing branch raises IOError, header offsets are '
       'mutually consistent and every read used by a check is length-guarded (CFG lower bounds); same for the ACR122 CCID/pseudo-APDU '
       'envelope. CRC: parameters, bit order, complement and add/check sibling agreement; Type 1/2 Tag data is returned only where the CRC '
       'check passed. That calculate_crc equals the ISO/IEC 14443-3 CRC for every message is an arithmetic identity and is not decided.',
  design_ref='DESIGN.md section 3 C14',
  note='Trusted: the frame formats as written in the checker validators (NXP UM0701-02, CCID, RC-S380), struct semantics. One defect repaired '
       '(truncated response headers raised IndexError/struct.error).',
  technique='finite evaluation (folding) of frame builders and response handling against independent validators and single-defect corruptions + CFG dominance/bounds (ast)')
CLAIMED['C13'] = dict(
  category='other',
  text='For each of the nine concrete driver classes the interprocedural exception-escape analysis, rooted at that class (methods resolve '
       'through its MRO, the chipset object to the class its init() constructs, transports included), computes every exception class that '
       'can leave send_cmd_recv_rsp / send_rsp_recv_cmd by explicit raise, re-raise, assert or catalogued library call, keyed by the entry '
       'statement it leaves through; anything outside the CommunicationError family and IOError is a failed obligation. Status-name and '
       'error-class mapping tables are checked for agreement (timeout -> TimeoutError, field loss -> BrokenLinkError, default '
       'TransmissionError) and ContactlessFrontend.exchange is shown to add and swallow nothing. Implicit exceptions (IndexError on empty '
       'responses) are outside this rule; which class a given status should map to beyond those named is not decided.',
  design_ref='DESIGN.md section 3 C13',
  note='Known finding: Chipset.Error from the register preparation of pn53x.Device.send_cmd_recv_rsp (4 keys, one root cause). Three defects '
       'repaired. Trusted: libusb1/pyserial exception hierarchies as tabulated in nfcsa/model.py.',
  technique='class-rooted interprocedural exception-escape analysis (ast)')
CLAIMED['C01'] = dict(
  category='other',
  text='Decides structural necessary conditions of the write/read round trip: the type specific write is reachable only behind the writeable '
       'and capacity gates and nothing before them can send a command; no variable bound only inside a loop is read on the zero-iteration path '
       '(definite assignment on the CFG) in any write/format/read routine; the TLV length-format constants of Type 1/2 writer and reader agree, '
       'tt1 == tt2, and the capacity adjustment is enumerated over every raw size 0..65535 against what the writer can place; the fragmenting '
       'loops of the Type 3/4 readers and writers partition the data; the Type 3 attribute block layout and checksum agree between reader and '
       'writer. Equality of the read-back octets for concrete memory images is not decided.',
  design_ref='DESIGN.md section 3 C01',
  note='One defect repaired (empty message on Type 1/2 raised UnboundLocalError). Of the emulated Type 3 Tag only the block count limit is '
       'decided here (robustness is C07).',
  technique='CFG dominance + definite-assignment analysis + writer/reader constant agreement + finite-grid folding of the Type 3/4 readers and writers against modelled tag commands (ast)')
CLAIMED['C02'] = dict(
  category='other',
  text='Typestate over the CFG of every NDEF write routine: Type 1/2 zero the length and flush before any data store, flush data before any '
       'length store, flush every length store before returning, and the commit byte must be flushed alone after the extended length; the '
       'write-back visits units in ascending order and writes only changed units; Type 3 writes WriteFlag=0Fh first and Ln+WriteFlag=00h '
       'together last; Type 4 writes either the whole file at once or a zero NLEN first and the real NLEN last. What a reader sees for a '
       'concrete memory image after cut k needs a tag model and is not decided.',
  design_ref='DESIGN.md section 3 C02',
  note='Known finding (Type 1 and Type 2): marker byte FFh and the 16-bit length share one flush; the pinned suite asserts the command '
       'transcripts, so it is recorded, not repaired. Trusted: flush order = ascending units, cut falls between commands.',
  technique='write-phase typestate by CFG reachability + finite-grid folding of the Type 4 writer to its command sequence (ast)')
CLAIMED['C03'] = dict(
  category='other',
  text='Decides, per store site, that the Type 1/2 NDEF writers and the Type 2 format routine write the memory image only at the TLV\'s own '
       'length field (with the offset reloaded from the reader\'s TLV offset) or at positions for which `not in skip_bytes` is established on '
       'every path to the store (and, for the terminator, below the end of the data area); that the reader feeds lock/memory control TLV ranges '
       'and the static reserved bytes into that skip set; that vendor format routines store only to constant ranges inside the product\'s '
       'NDEF area with matching value lengths; that the write-back writes only changed units; and that the Type 3/4 writers and the Type 4 wipe '
       'address only blocks/offsets inside the NDEF file. That the value bytes stay below the data-area end for every layout is a value-level '
       'consequence of the capacity computation and is not decided.',
  design_ref='DESIGN.md section 3 C03',
  note='Trusted: product memory maps tabulated in the rule (Topaz, Topaz-512, NTAG), control TLV semantics.',
  technique='per-store guard dominance on the CFG + constant range containment + finite-grid folding (ast)')
CLAIMED['C12'] = dict(
  category='other',
  text='Decides the structural clauses of the ISO-DEP initiator: block budget (FSC-3) with a partitioning I-block loop and FSC table/clamps; '
       'every block-number toggle modulo 2 and dominated by the comparison with the received block number; PCB constants and classification '
       'masks; every RF exchange of the APDU path inside a try that maps Transmission/Timeout/Protocol errors to Type4TagCommandError with '
       'the matching code, error recovery sends R(NAK)/R(ACK) and never the I-block again; exception-escape sets of IsoDepInitiator.exchange, '
       'send_apdu and transceive; every cycle of the retry loops passes the retry counter test and the WTX loop must be bounded; response '
       'bytes are indexed only behind a length test. At-most-once execution by the card and staleness need a card model and are not decided.',
  design_ref='DESIGN.md section 3 C12',
  note='Known findings (2 keys): the S(WTX) loop and the retransmit-after-R(ACK) path are unbounded (no counter test). The error mapping and '
       'length tests of the S(WTX) loop were repaired (90ee9d8). Also decided: one hand-over of an APDU to the block layer (R6) and that the block '
       'whose number was checked is the block consumed. Assume/guarantee: clf.exchange in reader mode raises Timeout/Transmission/ProtocolError '
       'or IOError (C13).',
  technique='CFG dominance + handler-map agreement + exception-escape analysis + loop-cycle counter test (ast)')
CLAIMED['C18'] = dict(
  category='other',
  text='Decides the control-flow contract of connect()/sense()/exchange() on the CFG: on-startup only before the discovery loop; in every '
       'helper on-discover precedes activation precedes on-connect precedes on-release, on-release reachable only through the true branch of '
       'on-connect, and after a true on-connect every normal path passes on-release exactly once; the documented return values (None, False in '
       'the three handlers, the object on a false on-connect, a result only if true); terminate() polled by every waiting loop; sense() '
       're-raises UnsupportedTargetError only for a single target, returns the first found target from inside the in-order loop and passes '
       'mute() on every miss; the captured target is cleared before any driver call and written nowhere else; exchange() dispatches on the '
       'class of the captured target. Behaviour against live counterparts and timing are not decided.',
  design_ref='DESIGN.md section 3 C18',
  note='Callbacks are opaque. Exceptional exits (host-link faults) are outside this property. The connect() documentation does not define the '
       'return value after on-release; the rule records that the default callbacks return True.',
  technique='callback typestate by CFG dominance / must-pass-through (ast)')
CLAIMED['C06'] = dict(
  category='other',
  text='Decides the structural clauses of SNEP/handover fragmentation: the four fragmenters partition the octets (slice width == stride, first '
       'slice at 0, the unfragmented threshold is the send MIU, a failed send stops the transfer); the Continue handshakes are ordered on the CFG '
       '(remaining fragments only after Continue, Continue only when fragments are missing and before reassembly, both directions); a message '
       'longer than the acceptable length is answered with Reject/dropped before reassembly or delivery (request handler reachable only through '
       'the passing branch of the length test) and GET announces the limit it enforces; header formats, payload offsets and completeness tests '
       'agree between client and server. Octet-for-octet arrival over the full stack for every MIU/RW pair is not decided.',
  design_ref='DESIGN.md section 3 C06',
  note='The window / sequence / acknowledgement / MIU / receive-buffer obligations of the data link connection (C05 rules) are part of this '
       'check. Trusted: SNEP 1.0 codes tabulated in the rule.',
  technique='fragment partition + handshake ordering by CFG dominance + header format agreement (ast)')
CLAIMED['C07'] = dict(
  category='other',
  text='Decides the exception-escape and termination skeleton of robustness against peer bytes: an interprocedural may-raise analysis with one '
       'allowed set per peer-input entry point (LLCP PDU/TLV decoders: pdu.DecodeError only; NFC-DEP frame and PDU decoders: ProtocolError / '
       'TransmissionError only; dep Initiator/Target activate/exchange/deactivate, LogicalLinkController activate/exchange/dispatch/collect/run '
       'loops, Type3TagEmulation.process_command, the SNEP and handover server threads, ContactlessFrontend.connect: their documented sets), fed '
       'by explicit raises, re-raises, asserts, catalogued library calls and the implicit raise sites of the buffer rules (index, pop, fixed-arity '
       'unpack, struct size on peer-controlled buffers without a dominating length guard or matching handler); no unbounded recursion on peer '
       'controlled nesting; every peer-driven decoder loop strictly consumes the remaining size; fixed-size reads in the LLCP decoders lie inside '
       'the checked window or are converted to DecodeError. Thread liveness after the input and blocking inside driver calls are not decided.',
  design_ref='DESIGN.md section 3 C07',
  note='Eight defects repaired (see known_findings.json, status fixed). Two known findings: SystemExit leaves connect() through the LLCP run '
       'loops; unbounded AGF nesting recursion. Implicit exceptions outside the catalogue (TypeError from None/str mixing, MemoryError) are not '
       'modelled; user callbacks are opaque.',
  technique='interprocedural exception-escape analysis with assume/guarantee layers + buffer min-length dataflow + loop progress + call-graph cycle check (ast/CFG)')
CLAIMED['C20'] = dict(
  category='other',
  text='Decides the control/data-flow skeleton of authentication: read_with_mac returns data only on the branch where the MAC over exactly that '
       'data verified under the session key/IV; session key, IV, authenticated flag and the switch to MAC-protected reads are assigned only '
       'behind the verified tag MAC, with the flag reset first and a fresh random challenge; Lite-S sets the flag only after the MAC-protected '
       'read-back; NTAG21x/Ultralight C return the comparison with the expected acknowledgement; provisioning and verification use the same '
       'key slices, defaults and byte order; the password->key expression of protect and authenticate is evaluated by the checker on several '
       'password values and must agree; write/read MAC inputs (flipped key, write counter, IV) are checked for agreement. Cryptographic '
       'soundness and value-level tamper detection are not decided.',
  design_ref='DESIGN.md section 3 C20',
  note='Known finding: FeliCa Lite-S protect derives the key with .encode("ascii"), authenticate does not (suite asserts str passwords for protect). '
       'Trusted: pyDes, vendor authentication procedures.',
  technique='authorisation dominance on the CFG + sibling expression agreement and MAC input layout by finite evaluation with modelled commands (ast)')
CLAIMED['C16'] = dict(
  category='other',
  text='For all 30 concrete tag classes and every public operation of the tag and its NDEF object (about 850 class-rooted entry points) the '
       'interprocedural exception-escape analysis computes what can reach the application by explicit raise, re-raise or assert; allowed are '
       'the TagCommandError family, IOError of a broken host link, argument preconditions whose guard mentions only parameters (literal call '
       'arguments prune infeasible guards), the documented RuntimeError of MAC read/write without authentication, the documented errors of '
       'the octets setter and ndeflib errors of records. The CommunicationError->reason mapping sites are checked for agreement and totality, '
       'the retry loops for boundedness and break-after-success, and nfc.tag.activate for the CommunicationError boundary. Duplicate application '
       'of a retried state-changing command on the tag is not decided; implicit exceptions on short responses are the subject of C08.',
  design_ref='DESIGN.md section 3 C16',
  note='No open finding. Defects repaired: AssertionError from sector_select, truncated Type 3 responses, Request System Code / Search '
       'Service Code payload lengths, the S(WTX) loop errors, MLe/MLc beyond short APDUs, segment numbers beyond 15. Implicit IndexError / '
       'struct.error sites on tag controlled buffers are part of the analysis (R5). Infeasible reports are suppressed one by one with '
       'anchor-checked reasons (see evidence).',
  technique='class-rooted interprocedural exception-escape analysis with literal-argument guard pruning (ast)')
CLAIMED['C08'] = dict(
  category='other',
  text='For every concrete tag class the exception-escape analysis shows which exception classes can leave nfc.tag.activate, Tag.ndef and the '
       'NDEF attributes (has_changed, length, capacity, octets, is_readable, is_writeable); anything but IOError of a broken host link -- in '
       'particular any TagCommandError -- is a failed obligation, reported at the unguarded call inside the NDEF reader. Each _read_ndef_data '
       'must compare or clamp the tag supplied length against the data area. Every loop of the read path driven by tag data must advance, '
       'consume a bounded range or leave when a command returns nothing (cycle analysis on the CFG). The number of commands for a given image '
       'and containment of all octets in the area beyond these necessary conditions are not decided. Tag controlled byte strings are indexed / '
       'unpacked only behind a proven length (buffer dataflow, R4).',
  design_ref='DESIGN.md section 3 C08',
  note='No open finding. Defects repaired: tt1 TLV read, Lite-S MC read, tt4 empty READ BINARY loop, tt3 Nbr = 0, short control TLVs on '
       'Type 1, truncated Type 3 responses, ATS without TA/TB, oversize CC answer, S(WTX) loop errors, length beyond the data area (4 tag types), '
       'MLe/MLc beyond short APDUs, segment numbers beyond 15. Discovery response lengths (SENS_RES, SEL_RES, NFCID1, RID_RES, SENSB_RES, SENSF_RES) '
       'are trusted framing facts.',
  technique='class-rooted exception-escape analysis + loop-cycle progress analysis on the CFG (ast)')
NA_REASON = {}
# clauses added in round 5 (appended to the text of the level claimed / the technique of each check)
EXTRA = {
 'C01': ('Round 5: the Type 1 / 2 memory image classes folded as objects (init, byte and slice stores across unit boundaries, flush) against a modelled tag '
         'that refuses what the real command refuses; the Type 1 / 2 TLV writers folded over layouts with reserved bytes in, up to and across the end of the '
         'data area; Type 4 capacity bounded by the offset READ / UPDATE BINARY as built can carry, reader folded with content; Type 3 commands within the frame budget.',
         'folded image / TLV writer / Type 4 reader models'),
 'C02': ('Round 5: memory image flush folded (what was stored reaches the tag); the folded Type 3 writer commits Ln only after every block was written (block numbers above 255 included).', 'folded image and Type 3 writer'),
 'C03': ('Round 5: TLV writers folded over layouts (only the length field and free bytes of the data area change, terminator included); control TLV ranges cut only by an address-space constant; image flush folded.', 'folded TLV writer / image models'),
 'C04': ('Round 5: ContactlessFrontend.exchange hands a frame to the driver once on every path; the Initiator answers a timeout with ATN, never with NACK.', 'CFG reachability between driver call sites'),
 'C08': ('Round 5: Type 4 capacity / reader / offsets against the address limit folded from READ BINARY; over-long READ BINARY answers; Type 1 / 2 length guard folded for empty messages and negative capacities; no uncounted call cycle in the tag cone (class-rooted call graph, canary).', 'call-cycle search over the class-rooted call graph + folded reader'),
 'C09': ('Round 5: notify_all is passed on every path through close() (CFG must-pass); the NFC-DEP release loops that terminate() runs through are bounded (C04-R5 obligations as C09-R8).', 'CFG must-pass-through'),
 'C12': ('Round 5: driver error classification (C13-R2) and the single driver hand-over of the frontend are obligations of this check too.', 'shared mapping / hand-over obligations'),
 'C14': ('Round 5: for chipset classes that override write_frame() nothing else in the callee closure of command() writes to the transport (frame envelope).', 'callee closure who-may-write rule'),
 'C16': ('Round 5: no function of nfc.clf changes an argument in place (a repeated command is sent as it was; unnormalised source, canary); no write command reachable from the handler of its own try in nfc.tag; Type 4 dump bounded by the address limit.', 'parameter-mutation rule + CFG reachability from handlers'),
 'C17': ('Round 5: a bind inserts the socket only into the access point it has just created (dominance).', 'CFG dominance'),
 'C18': ('Round 5: access point shutdown order (C09-R7) and the bounded NFC-DEP release (C04-R5) are obligations of this check (C18-R6).', 'shared ordering / loop-bound obligations'),
 'C19': ('Round 5: the idle delay of the run loops derives from the local LTO or a constant, never from the peer LTO; the service discovery MIU budget (C10-R1) is an obligation of this check (C19-R5).', 'provenance through single-assignment locals'),
 'C20': ('Round 5: protect() and authenticate() hand the password to their delegates unchanged.', 'parameter passthrough rule'),
}
def main():
    checks = []
    for pid in ALL:
        if pid in CLAIMED:
            c = CLAIMED[pid]
            checks.append({
                'property_id': pid,
                'quick_cmd': './check.py %s' % pid,
                'thorough_cmd': './check.py %s --thorough' % pid,
                'evidence_file': 'evidence/%s.json' % pid,
                'replay_cmd_template': './check.py %s --replay {path}' % pid,
                'engine': 'nfcsa',
                'level_claimed': {'category': c['category'], 'text': c['text'] + ((' ' + EXTRA[pid][0]) if pid in EXTRA else ''), 'design_ref': c['design_ref']},
                'level_note': c['note'],
                'technique': c['technique'] + (('; ' + EXTRA[pid][1]) if pid in EXTRA else ''),
            })
    na = [{'property_id': p, 'reason': NA_REASON.get(p, 'check not built yet in this round (static rules are designed in DESIGN.md section 3); not claimed until the rule runs clean')}
          for p in ALL if p not in CLAIMED]
    m = {
        'version': 1,
        'setup_cmd': 'mkdir -p evidence',
        'hooks': {'guard': 'NFCPY_VERIF', 'enable': 'none: the checks read the source only, no hooks exist in /repo',
                  'baseline_off_cmd': 'cd /repo && /venv/bin/python -m pytest -ra -q -p no:cacheprovider --timeout=900 --continue-on-collection-errors',
                  'source_commits': [], 'add_only': True},
        'engines': [{'name': 'nfcsa', 'path': 'nfcsa/', 'serves_properties': sorted(CLAIMED),
                     'kind_free_text': 'repository-specific static analyser over the Python ast: resolved class/call model, statement CFG with dominance/reachability queries, exception-escape analysis, lexical lock sets, table/length agreement rules'}],
        'checks': checks,
        'notes': 'Static analysis only (ast / CFG / call graph over the current tree; some clauses are decided by folding parsed source fragments over finite grids with every outward call modelled by the checker -- DESIGN.md section 7 says what that does and does not decide; repository code is never imported or executed). Known findings: known_findings.json. Design: DESIGN.md.',
        'not_applicable': na,
    }
    with open(os.path.join(HERE, 'MANIFEST.json'), 'w') as f:
        json.dump(m, f, indent=1)
    print('MANIFEST.json: %d checks, %d not_applicable' % (len(checks), len(na)))
if __name__ == '__main__':
    main()
