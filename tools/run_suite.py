#!/usr/bin/env python3
"""Run the pinned pytest suite on a tree (default /repo) and compare with the stable_pass
list of /root/.vp/BASELINE.json.  Usage: run_suite.py [repo_dir].  Exit 0 iff every
stable_pass test still passes.  (Tooling for fix commits / seeded changes; not a check.)"""
import json, os, subprocess, sys, tempfile, xml.etree.ElementTree as ET
repo = sys.argv[1] if len(sys.argv) > 1 else '/repo'
base = json.load(open('/root/.vp/BASELINE.json'))
out = tempfile.mktemp(suffix='.xml', prefix='suite_', dir='/dev/shm' if os.path.isdir('/dev/shm') else None)
env = dict(os.environ)
env['PYTHONPATH'] = os.path.join(repo, 'src')
cmd = ['/venv/bin/python', '-m', 'pytest', '-q', '-p', 'no:cacheprovider', '--timeout=900',
       '--continue-on-collection-errors', '--junitxml=' + out] + sys.argv[2:]
# a changed tree can leave a non-daemon thread blocked for ever: pytest then writes its report but never exits.  Poll, and
# end the process once the junit file is complete and unchanged for 30 s (or after 40 min in any case).
import time
logf = tempfile.TemporaryFile(mode='w+')
proc = subprocess.Popen(cmd, cwd=repo, env=env, stdout=logf, stderr=subprocess.STDOUT, text=True)
t0 = time.time()
stable_since = None
while proc.poll() is None:
    time.sleep(2)
    if os.path.exists(out) and os.path.getsize(out) > 0:
        m = os.path.getmtime(out)
        if time.time() - m > 30:
            proc.kill()
            break
    if time.time() - t0 > 2400:
        proc.kill()
        break
proc.wait()
logf.seek(0)


class _R(object):
    stdout = logf.read()


r = _R()
passed, failed = set(), set()
for tc in ET.parse(out).getroot().iter('testcase'):
    tid = (tc.get('classname') or '') + '::' + (tc.get('name') or '')
    if any(c.tag in ('failure', 'error') for c in tc):
        failed.add(tid)
    elif any(c.tag == 'skipped' for c in tc):
        pass
    else:
        passed.add(tid)
os.unlink(out)
stable = set(base['stable_pass'])
missing = sorted(stable - passed)
print((r.stdout.strip().splitlines() or ['(no pytest output)'])[-1])
print('stable_pass %d, still passing %d, regressions %d' % (len(stable), len(stable & passed), len(missing)))
for t in missing[:40]:
    print('  REGRESSION', t)
sys.exit(1 if missing else 0)
