#!/usr/bin/env python3
"""Regenerate the as-built status tables of DESIGN.md (between the STATUS markers) from the evidence files,
known_findings.json and seeded/RESULTS.json.  Tooling only."""
import json, os, re, subprocess
HERE = os.path.dirname(os.path.dirname(os.path.abspath(__file__)))
ev = {}
for i in range(1, 21):
    p = os.path.join(HERE, 'evidence', 'C%02d.json' % i)
    if os.path.exists(p):
        ev['C%02d' % i] = json.load(open(p))
kf = json.load(open(os.path.join(HERE, 'known_findings.json')))['findings']
seeded = {}
rp = os.path.join(HERE, 'seeded', 'RESULTS.json')
if os.path.exists(rp):
    seeded = json.load(open(rp))
titles = {}
for l in open(os.path.join(HERE, 'properties.jsonl')):
    d = json.loads(l)
    titles[d['id']] = d['title']
out = []
out.append('| id | rules (obligations) | discharged | known findings | defects fixed (commits) | suppressions | self-test mutants killed | seeded changes detected |')
out.append('|---|---|---|---|---|---|---|---|')
tot = dict(obl=0, known=0, fixed=0, mut=0, killed=0, seeded=0, det=0)
for pid in sorted(titles):
    e = ev.get(pid)
    if not e:
        out.append('| %s | not built | | | | | | |' % pid)
        continue
    c = e['coverage']
    rules = ', '.join('%s (%d)' % (r.split('-')[1], n) for r, n in sorted(c['per_rule'].items()))
    known = [k for k in kf if k['property'] == pid and k['status'] == 'known']
    fixed = sorted(set(k['commit'] for k in kf if k['property'] == pid and k['status'] == 'fixed' and k.get('commit')))
    st = c.get('selftest') or {}
    mut = st.get('mutants', 0)
    killed = st.get('killed', 0) + st.get('killed_by_other_rule', 0)
    sd = [v for k, v in seeded.items() if k.startswith(pid + '/')]
    det = sum(1 for v in sd if v.get('verdict') == 'DETECTED')
    out.append('| %s | %s | %d / %d | %d | %d (%s) | %d | %s | %s |' % (
        pid, rules, c['discharged'], c['obligations'], len(known), len(fixed), ' '.join(fixed) or '-', len(c.get('suppressed', [])),
        ('%d / %d' % (killed, mut)) if mut else 'run --thorough', ('%d / %d' % (det, len(sd))) if sd else '-'))
    tot['obl'] += c['obligations']; tot['known'] += len(known); tot['fixed'] += len(fixed); tot['mut'] += mut; tot['killed'] += killed
    tot['seeded'] += len(sd); tot['det'] += det
allfixed = sorted(set(k['commit'] for k in kf if k['status'] == 'fixed' and k.get('commit')))
out.append('| total | %d obligations | | %d | %d distinct fix commits | | %d / %d | %d / %d |' % (tot['obl'], tot['known'], len(allfixed), tot['killed'], tot['mut'], tot['det'], tot['seeded']))
txt = '\n'.join(out)
# per property detail
det = []
for pid in sorted(titles):
    e = ev.get(pid)
    if not e:
        continue
    c = e['coverage']
    det.append('#### %s -- %s' % (pid, titles[pid]))
    det.append('')
    det.append('*Rules as built.* ' + c['explanation'])
    det.append('')
    if c.get('trusted_base'):
        det.append('*Trusted base.* ' + '; '.join(c['trusted_base']) + '.')
        det.append('')
    if e.get('assumptions'):
        det.append('*Assumptions.* ' + '; '.join(e['assumptions']) + '.')
        det.append('')
    known = [k for k in kf if k['property'] == pid and k['status'] == 'known']
    if known:
        det.append('*Known findings (genuine defects recorded, not repaired).*')
        for k in known:
            det.append('- `%s` %s -- %s  Demonstration: %s' % (k['rule'], k['key'], k['what_fails'], k.get('demonstration', '-')))
        det.append('')
    fixed = {}
    for k in kf:
        if k['property'] == pid and k['status'] == 'fixed':
            fixed.setdefault(k.get('commit', '?'), []).append(k)
    if fixed:
        det.append('*Defects repaired (`fix:` commits in /repo).*')
        for cm, ks in sorted(fixed.items()):
            w = ks[0]['what_fails']
            w = re.sub(r'^fixed: property=\S+ \S+ ', '', w)
            det.append('- `%s` %s (%d obligation%s)' % (cm, w, len(ks), '' if len(ks) == 1 else 's'))
        det.append('')
    if c.get('suppressed'):
        det.append('*Reasoned suppressions of infeasible reports (anchor re-checked on every run).*')
        for sp in c['suppressed']:
            det.append('- %s: %s' % (sp['key'], sp['reason']))
        det.append('')
    sd = sorted((k, v) for k, v in seeded.items() if k.startswith(pid + '/'))
    if sd:
        det.append('*Seeded property-breaking changes (sub-agent produced, confirmed, kept under `seeded/%s/`).*' % pid)
        for k, v in sd:
            mp = os.path.join(HERE, 'seeded', k, 'meta.json')
            title = ''
            if os.path.exists(mp):
                try:
                    title = json.load(open(mp)).get('title', '')
                except Exception:
                    pass
            det.append('- %s %s: **%s** by %s' % (k, title, v.get('verdict'), ', '.join(v.get('own', {}).get('rules', [])) or '-'))
        det.append('')
dtxt = '\n'.join(det)
p = os.path.join(HERE, 'DESIGN.md')
s = open(p).read()
fl = subprocess.run(['git', '-C', '/repo', 'log', '--reverse', '--format=| `%h` | %s |'], stdout=subprocess.PIPE, text=True).stdout
fixes = '| commit | what it repairs |\n|---|---|\n' + '\n'.join(l.replace('| fix: ', '| ', 1) for l in fl.splitlines() if '| fix: ' in l)
for tag, body in (('STATUS', txt), ('PROPS', dtxt), ('FIXES', fixes)):
    if '<!-- %s:BEGIN -->' % tag in s:
        s = re.sub(r'<!-- %s:BEGIN -->.*?<!-- %s:END -->' % (tag, tag), lambda m: '<!-- %s:BEGIN -->\n' % tag + body + '\n<!-- %s:END -->' % tag, s, flags=re.S)
open(p, 'w').write(s)
print(txt)
