#!/usr/bin/env python3
"""Evaluate the seeded property-breaking changes kept under /verif/seeded/<Cxx>/<n>/patch.diff.

For every patch: `git -C /repo apply`, run the property's quick check (evidence redirected to a
scratch directory so the committed evidence is not disturbed), record exit status and the rules
that fired, then `git -C /repo checkout -- .`.  With --all every check is run on every patch
(shows cross-property detection and that unrelated checks stay silent or not).
Usage: tools/seed_eval.py [--all] [Cxx[/n] ...]      Results: seeded/RESULTS.json + table on stdout.
Tooling only -- not a registered check."""
import json
import os
import re
import shutil
import subprocess
import sys
import tempfile

HERE = os.path.dirname(os.path.dirname(os.path.abspath(__file__)))
SEEDED = os.path.join(HERE, 'seeded')
REPO = '/repo'
ALL = ['C%02d' % i for i in range(1, 21)]


def sh(cmd, **kw):
    return subprocess.run(cmd, stdout=subprocess.PIPE, stderr=subprocess.STDOUT, text=True, **kw)


def clean():
    return sh(['git', '-C', REPO, 'status', '--porcelain', '--untracked-files=no']).stdout.strip() == ''


def run_check(prop, evdir):
    env = dict(os.environ, NFCSA_EVIDENCE_DIR=evdir)
    r = sh([os.path.join(HERE, 'check.py'), prop], env=env, cwd=HERE)
    rules = sorted(set(re.findall(r'^\s+\S+:\d+ (C\d\d-R\w+):', r.stdout, re.M)))
    first = [l.strip() for l in r.stdout.splitlines() if re.match(r'^\s+\S+:\d+ C\d\d-R', l)]
    return {'exit': r.returncode, 'rules': rules, 'violations': r.stdout.count('VIOLATION property='),
            'analysis_error': 'ANALYSIS-ERROR' in r.stdout, 'first': [f[:300] for f in first[:3]]}


def main(argv):
    everything = '--all' in argv
    sel = [a for a in argv[1:] if not a.startswith('--')]
    if not clean():
        print('refusing: /repo has uncommitted changes to tracked files')
        return 2
    items = []
    for prop in sorted(os.listdir(SEEDED)) if os.path.isdir(SEEDED) else []:
        d = os.path.join(SEEDED, prop)
        if not os.path.isdir(d):
            continue
        for n in sorted(os.listdir(d)):
            if os.path.exists(os.path.join(d, n, 'patch.diff')) and not os.path.exists(os.path.join(d, n, 'OBSOLETE')):
                if not sel or prop in sel or '%s/%s' % (prop, n) in sel:
                    items.append((prop, n))
    results = {}
    res_path = os.path.join(SEEDED, 'RESULTS.json')
    if os.path.exists(res_path) and sel:
        results = json.load(open(res_path))
    evdir = tempfile.mkdtemp(prefix='seedev_', dir='/dev/shm' if os.path.isdir('/dev/shm') else None)
    try:
        for prop, n in items:
            patch = os.path.join(SEEDED, prop, n, 'patch.diff')
            r = sh(['git', '-C', REPO, 'apply', patch])
            if r.returncode != 0:
                results['%s/%s' % (prop, n)] = {'applied': False, 'error': r.stdout[-300:]}
                print('%s/%s  patch does not apply: %s' % (prop, n, r.stdout.strip()[-200:]))
                sh(['git', '-C', REPO, 'checkout', '--', '.'])
                continue
            try:
                own = run_check(prop, evdir)
                others = {}
                if everything:
                    for q in ALL:
                        if q != prop:
                            o = run_check(q, evdir)
                            if o['exit'] != 0:
                                others[q] = o
            finally:
                sh(['git', '-C', REPO, 'checkout', '--', '.'])
            verdict = 'DETECTED' if own['exit'] == 1 else ('ANALYSIS-ERROR' if own['exit'] == 2 else 'MISSED')
            results['%s/%s' % (prop, n)] = {'applied': True, 'verdict': verdict, 'own': own, 'others': others}
            print('%s/%s  %-14s rules=%s%s' % (prop, n, verdict, ','.join(own['rules']) or '-',
                                              ('  also: ' + ','.join(sorted(others))) if others else ''))
    finally:
        shutil.rmtree(evdir, ignore_errors=True)
        assert clean(), '/repo not restored'
    with open(res_path, 'w') as f:
        json.dump(results, f, indent=1, sort_keys=True)
    det = sum(1 for v in results.values() if v.get('verdict') == 'DETECTED')
    print('%d seeded changes, %d detected by their own property check' % (len(results), det))
    return 0


if __name__ == '__main__':
    sys.exit(main(sys.argv))
