#!/usr/bin/env python3
"""Confirm sub-agent produced changes before they are kept under /verif/seeded.

For /tmp/seedout/<Cxx>/<n>/ (patch.diff, demo.py | demo.txt, meta.json) and the scratch worktree
/tmp/seed/<Cxx>: demo on the clean worktree must end with HOLDS, the patch must apply, the demo on the
patched worktree must end with VIOLATED, the pinned suite must show no regression.  On success the
directory is copied to /verif/seeded/<Cxx>/<n>/ with a confirm.json.  Usage: seed_confirm.py Cxx [n ...] [--nosuite] [--round2 | --round3]   (--roundK: /tmp/seedoutK/<Cxx>/<n> -> seeded/<Cxx>/rK-<n>)"""
import json
import os
import shutil
import subprocess
import sys

HERE = os.path.dirname(os.path.dirname(os.path.abspath(__file__)))


def sh(cmd, **kw):
    return subprocess.run(cmd, stdout=subprocess.PIPE, stderr=subprocess.STDOUT, text=True, **kw)


def demo(wt, path):
    env = dict(os.environ, PYTHONPATH=os.path.join(wt, 'src'))
    try:
        r = sh(['/venv/bin/python', path], env=env, cwd=os.path.dirname(path), timeout=300)
    except subprocess.TimeoutExpired:
        return 'TIMEOUT'
    lines = [l for l in r.stdout.strip().splitlines() if l.strip()]
    return lines[-1] if lines else ''


def main(argv):
    prop = argv[1]
    nosuite = '--nosuite' in argv
    ns = [a for a in argv[2:] if not a.startswith('--')]
    wt = '/tmp/seed/' + prop
    rnd = next((a[len('--round'):] for a in argv if a.startswith('--round')), "")
    r2 = bool(rnd)
    out = '/tmp/seedout%s/%s' % (rnd, prop)
    if not ns:
        ns = sorted(d for d in os.listdir(out) if os.path.isdir(os.path.join(out, d)))
    for n in ns:
        d = os.path.join(out, n)
        patch = os.path.join(d, 'patch.diff')
        if not os.path.exists(patch):
            print('%s/%s no patch.diff' % (prop, n))
            continue
        sh(['git', '-C', wt, 'checkout', '--', '.'])
        res = {'property': prop, 'n': n}
        dpy = os.path.join(d, 'demo.py')
        has_demo = os.path.exists(dpy)
        if has_demo:
            res['clean'] = demo(wt, dpy)
        r = sh(['git', '-C', wt, 'apply', patch])
        res['applies'] = r.returncode == 0
        if not res['applies']:
            res['error'] = r.stdout[-300:]
        else:
            if has_demo:
                res['patched'] = demo(wt, dpy)
            if not nosuite:
                for attempt in range(4):     # timing dependent llcp tests are flaky under machine load: a green run is what counts
                    s = sh(['/venv/bin/python', os.path.join(HERE, 'tools', 'run_suite.py'), wt])
                    res['suite'] = s.stdout.strip().splitlines()[-1] if s.returncode == 0 else s.stdout.strip()[-600:]
                    res['suite_ok'] = s.returncode == 0
                    res['suite_runs'] = attempt + 1
                    if s.returncode == 0:
                        break
            c = sh(['/venv/bin/python', '-m', 'compileall', '-q', os.path.join(wt, 'src', 'nfc')])
            res['compiles'] = c.returncode == 0
        sh(['git', '-C', wt, 'checkout', '--', '.'])
        sh(['find', os.path.join(wt, 'src'), '-name', '__pycache__', '-prune', '-exec', 'rm', '-rf', '{}', '+'])
        ok = res.get('applies') and res.get('compiles') and (nosuite or res.get('suite_ok')) and \
            (not has_demo or (res.get('clean', '').startswith('HOLDS') and res.get('patched', '').startswith('VIOLATED')))
        res['confirmed_mechanically'] = bool(ok)
        res['demo_kind'] = 'script' if has_demo else 'written argument'
        print(json.dumps(res))
        if ok:
            dst = os.path.join(HERE, 'seeded', prop, ('r%s-%s' % (rnd, n)) if r2 else n)
            os.makedirs(dst, exist_ok=True)
            for fn in os.listdir(d):
                if fn in ('patch.diff', 'demo.py', 'demo.txt', 'meta.json'):
                    shutil.copy(os.path.join(d, fn), os.path.join(dst, fn))
            with open(os.path.join(dst, 'confirm.json'), 'w') as f:
                json.dump(res, f, indent=1, sort_keys=True)


if __name__ == '__main__':
    main(sys.argv)
