#!/usr/bin/env python3
"""Regenerate nfcsa/ref_locals.json (see nfcsa/alpha.py) from /repo's current tree.  Run after the rule instances were
confirmed on a new state of the repository (e.g. after a fix commit), then commit the file."""
import ast, json, os, sys
HERE = os.path.dirname(os.path.dirname(os.path.abspath(__file__)))
sys.path.insert(0, HERE)
from nfcsa import alpha           # noqa: E402
from nfcsa.canon import canonical  # noqa: E402
out = {}
src = '/repo/src'
for root, _, files in os.walk(os.path.join(src, 'nfc')):
    for fn in sorted(files):
        if not fn.endswith('.py'):
            continue
        p = os.path.join(root, fn)
        rel = os.path.relpath(p, src)[:-3].split(os.sep)
        if rel[-1] == '__init__':
            rel = rel[:-1]
        name = '.'.join(rel)
        tree = canonical(ast.parse(open(p).read()))
        d = {}
        allunits = {}
        for key, f in alpha.units(tree):
            i = alpha.info(f)
            if i is not None and i[1]:
                d[key] = {'hash': i[0], 'names': i[1]}
            # every unit with the names of the functions nested in it (nfcsa/inline.py: what is not listed here is new)
            allunits[key] = sorted(x.name for x in ast.walk(f) if x is not f and isinstance(x, ast.FunctionDef))
        d['__units__'] = allunits
        # module level and class level names bound by assignment (nfcsa/inline.py: a constant that is not listed here is new)
        names = set()
        for node in ast.walk(tree):
            if isinstance(node, (ast.Module, ast.ClassDef)):
                for st in node.body:
                    if isinstance(st, ast.Assign):
                        for t in st.targets:
                            for x in ast.walk(t):
                                if isinstance(x, ast.Name):
                                    names.add(x.id)
        d['__names__'] = sorted(names)
        out[name] = d
with open(alpha.REF_FILE, 'w') as f:
    json.dump(out, f, indent=0, sort_keys=True)
print('%d modules, %d functions with locals, %d units' % (len(out), sum(len(v) - 2 for v in out.values()), sum(len(v['__units__']) for v in out.values())))
