#!/usr/bin/env python3
"""Maintenance helper (run by hand, never by a check): append the failures currently listed in
evidence/<prop>.json to known_findings.json as status=known entries.  Usage: kf_add.py C11 [rule-prefix]"""
import json, sys, os
HERE = os.path.dirname(os.path.dirname(os.path.abspath(__file__)))
prop = sys.argv[1]
prefix = sys.argv[2] if len(sys.argv) > 2 else ''
ev = json.load(open(os.path.join(HERE, 'evidence', prop + '.json')))
kf = json.load(open(os.path.join(HERE, 'known_findings.json')))
have = {(f['rule'], f['key']) for f in kf['findings']}
n = 0
for f in ev['coverage']['failures']:
    if (f['rule'], f['key']) in have or not f['rule'].startswith(prefix):
        continue
    kf['findings'].append({'property': prop, 'rule': f['rule'], 'key': f['key'], 'status': 'known',
                           'what_fails': f['message'], 'demonstration': 'TODO'})
    n += 1
json.dump(kf, open(os.path.join(HERE, 'known_findings.json'), 'w'), indent=1)
print('added', n)
