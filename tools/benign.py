#!/usr/bin/env python3
"""Robustness benchmark: behaviour-preserving rewrites of the whole library must not raise an alarm.

For each transformation a scratch copy of /repo/src is rewritten with `ast` (outside /repo and /verif, removed afterwards),
compiled, and all 20 quick checks are run against it (NFCSA_REPO / NFCSA_EVIDENCE_DIR point to the scratch).  Reports every
check that does not exit 0.  Tooling only -- not a registered check.
Usage: tools/benign.py [name ...]      names: unparse logging logmsg ifelse augassign yoda rename"""
import ast
import os
import shutil
import subprocess
import sys
import tempfile

HERE = os.path.dirname(os.path.dirname(os.path.abspath(__file__)))
ALL = ['C%02d' % i for i in range(1, 21)]


class Logging(ast.NodeTransformer):
    """insert a debug log call at the start of every function, loop body and if/else body"""
    def _log(self):
        return ast.parse("log.debug('benign edit')").body[0]

    def _ins(self, body, skip_doc=False):
        i = 1 if (skip_doc and body and isinstance(body[0], ast.Expr) and isinstance(body[0].value, ast.Constant) and isinstance(body[0].value.value, str)) else 0
        return body[:i] + [self._log()] + body[i:]

    def visit_FunctionDef(self, n):
        self.generic_visit(n)
        n.body = self._ins(n.body, True)
        return n

    def visit_For(self, n):
        self.generic_visit(n)
        n.body = self._ins(n.body)
        return n

    def visit_While(self, n):
        self.generic_visit(n)
        n.body = self._ins(n.body)
        return n

    def visit_If(self, n):
        self.generic_visit(n)
        n.body = self._ins(n.body)
        if n.orelse and not (len(n.orelse) == 1 and isinstance(n.orelse[0], ast.If)):
            n.orelse = self._ins(n.orelse)
        return n


class LogMsg(ast.NodeTransformer):
    """edit the text of log messages"""
    def visit_Call(self, n):
        self.generic_visit(n)
        if isinstance(n.func, ast.Attribute) and isinstance(n.func.value, ast.Name) and n.func.value.id in ('log',) and n.args and \
                isinstance(n.args[0], ast.Constant) and isinstance(n.args[0].value, str):
            n.args[0] = ast.Constant(n.args[0].value + ' (edited)')
        return n


class IfElse(ast.NodeTransformer):
    """if c: A else: B  ->  if not c: B else: A   (plain else only)"""
    def visit_If(self, n):
        self.generic_visit(n)
        if n.orelse and not (len(n.orelse) == 1 and isinstance(n.orelse[0], ast.If)):
            n.test = ast.UnaryOp(ast.Not(), n.test)
            n.body, n.orelse = n.orelse, n.body
        return n


class AugAssign(ast.NodeTransformer):
    """x += y -> x = x + y for plain names (ints / immutable values and fresh local buffers alike: rebinding a local name)"""
    def visit_AugAssign(self, n):
        self.generic_visit(n)
        if isinstance(n.target, ast.Name) and isinstance(n.op, (ast.Add, ast.Sub)) and n.target.id in ('offset', 'size', 'index', 'i', 'symm', 'miu_size', 'count'):
            return ast.Assign([ast.Name(n.target.id, ast.Store())], ast.BinOp(ast.Name(n.target.id, ast.Load()), n.op, n.value), lineno=n.lineno)
        return n


class Yoda(ast.NodeTransformer):
    """a <op> CONST -> CONST <flipped op> a"""
    FLIP = {ast.Lt: ast.Gt, ast.Gt: ast.Lt, ast.LtE: ast.GtE, ast.GtE: ast.LtE, ast.Eq: ast.Eq, ast.NotEq: ast.NotEq}

    def visit_Compare(self, n):
        self.generic_visit(n)
        if len(n.ops) == 1 and type(n.ops[0]) in self.FLIP and isinstance(n.comparators[0], ast.Constant) and isinstance(n.comparators[0].value, int) \
                and not isinstance(n.left, ast.Constant):
            return ast.Compare(n.comparators[0], [self.FLIP[type(n.ops[0])]()], [n.left])
        return n


class Rename(ast.NodeTransformer):
    """rename the plain local variables of every function (not parameters, not names shared with nested scopes)"""
    def visit_FunctionDef(self, n):
        params = {a.arg for a in n.args.args + n.args.kwonlyargs + n.args.posonlyargs}
        if n.args.vararg:
            params.add(n.args.vararg.arg)
        if n.args.kwarg:
            params.add(n.args.kwarg.arg)
        nested_names = set()
        stores = set()
        declared = set()

        def walk(node, top):
            for c in ast.iter_child_nodes(node):
                if isinstance(c, (ast.FunctionDef, ast.Lambda, ast.ClassDef, ast.ListComp, ast.SetComp, ast.DictComp, ast.GeneratorExp)):
                    for x in ast.walk(c):
                        if isinstance(x, ast.Name):
                            nested_names.add(x.id)
                        if isinstance(x, ast.arg):
                            nested_names.add(x.arg)
                    continue
                if isinstance(c, (ast.Global, ast.Nonlocal)):
                    declared.update(c.names)
                if isinstance(c, ast.Name) and isinstance(c.ctx, (ast.Store, ast.Del)):
                    stores.add(c.id)
                if isinstance(c, ast.ExceptHandler) and c.name:
                    declared.add(c.name)
                walk(c, False)
        walk(n, True)
        ren = {v for v in stores if v not in params and v not in nested_names and v not in declared and not v.startswith('__')}

        class R(ast.NodeTransformer):
            def visit_Name(self, x):
                if x.id in ren:
                    x.id = x.id + '_v'
                return x

            def visit_FunctionDef(self, x):
                return x

            def visit_Lambda(self, x):
                return x

            def visit_ClassDef(self, x):
                return x
        for i, st in enumerate(n.body):
            n.body[i] = R().visit(st)
        # nested functions are transformed on their own
        for st in ast.walk(n):
            if st is not n and isinstance(st, ast.FunctionDef):
                pass
        self.generic_visit(n)
        return n


def rename_one(count, seed):
    """Single-variable renames: pick `count` (function, local variable) pairs at random, rename that one variable in that one
    function, run all checks.  Measures how often an everyday rename detaches a rule."""
    import random
    rnd = random.Random(seed)
    base = '/dev/shm' if os.path.isdir('/dev/shm') else None
    cands = []
    for root, _, files in os.walk('/repo/src/nfc'):
        for fn in sorted(files):
            if not fn.endswith('.py'):
                continue
            p = os.path.join(root, fn)
            tree = ast.parse(open(p).read())
            for f in ast.walk(tree):
                if isinstance(f, ast.FunctionDef):
                    params = {a.arg for a in f.args.args + f.args.kwonlyargs}
                    nested = set()
                    for c in ast.walk(f):
                        if c is not f and isinstance(c, (ast.FunctionDef, ast.Lambda, ast.ListComp, ast.GeneratorExp, ast.SetComp, ast.DictComp)):
                            nested.update(x.id for x in ast.walk(c) if isinstance(x, ast.Name))
                    stores = sorted({x.id for x in ast.walk(f) if isinstance(x, ast.Name) and isinstance(x.ctx, ast.Store)} - params - nested)
                    exc = {h.name for h in ast.walk(f) if isinstance(h, ast.ExceptHandler) and h.name}
                    glob = {n for g in ast.walk(f) if isinstance(g, (ast.Global, ast.Nonlocal)) for n in g.names}
                    for v in stores:
                        if v not in exc and v not in glob:
                            cands.append((p, f.name, f.lineno, v))
    picks = rnd.sample(cands, count)
    alarmed = 0
    for p, fname, lineno, var in picks:
        scratch = tempfile.mkdtemp(prefix='benign_r1_', dir=base)
        try:
            repo = os.path.join(scratch, 'repo')
            shutil.copytree('/repo/src', os.path.join(repo, 'src'))
            q = os.path.join(repo, os.path.relpath(p, '/repo'))
            tree = ast.parse(open(q).read())
            for f in ast.walk(tree):
                if isinstance(f, ast.FunctionDef) and f.name == fname and f.lineno == lineno:
                    for x in ast.walk(f):
                        if isinstance(x, ast.Name) and x.id == var:
                            x.id = var + '_renamed'
            out = ast.unparse(tree)
            compile(out, q, 'exec')
            open(q, 'w').write(out + '\n')
            evdir = os.path.join(scratch, 'ev')
            os.makedirs(evdir)
            env = dict(os.environ, NFCSA_REPO=repo, NFCSA_EVIDENCE_DIR=evdir)
            bad = []
            for prop in ALL:
                r = subprocess.run([os.path.join(HERE, 'check.py'), prop], cwd=HERE, env=env, stdout=subprocess.PIPE, stderr=subprocess.STDOUT, text=True)
                if r.returncode != 0:
                    bad.append('%s(exit %d)' % (prop, r.returncode))
            alarmed += bool(bad)
            print('%s %s:%d %s -> %s' % (os.path.relpath(p, '/repo/src'), fname, lineno, var, ' '.join(bad) or 'no alarm'), flush=True)
        finally:
            shutil.rmtree(scratch, ignore_errors=True)
    print('== rename1: %d single-variable renames, %d raised an alarm in at least one check' % (count, alarmed))


class NoElse(ast.NodeTransformer):
    """if c: ...; return/raise/continue/break  else: B   ->   if c: ...; return   followed by B   (pylint no-else-return style)"""
    def _flat(self, body):
        out = []
        for st in body:
            if isinstance(st, ast.If) and st.orelse and not (len(st.orelse) == 1 and isinstance(st.orelse[0], ast.If)) and \
                    isinstance(st.body[-1], (ast.Return, ast.Raise, ast.Continue, ast.Break)):
                tail = st.orelse
                st.orelse = []
                out.append(st)
                out.extend(tail)
            else:
                out.append(st)
        return out

    def generic_visit(self, node):
        super().generic_visit(node)
        for fld in ('body', 'orelse', 'finalbody'):
            b = getattr(node, fld, None)
            if isinstance(b, list) and b and isinstance(b[0], ast.stmt):
                setattr(node, fld, self._flat(b))
        return node


class TempReturn(ast.NodeTransformer):
    """return <call or binop>  ->  result_ = <expr>; return result_"""
    def _flat(self, body):
        out = []
        for st in body:
            if isinstance(st, ast.Return) and isinstance(st.value, (ast.Call, ast.BinOp, ast.Subscript)):
                out.append(ast.Assign([ast.Name('result_', ast.Store())], st.value, lineno=st.lineno))
                out.append(ast.Return(ast.Name('result_', ast.Load())))
            else:
                out.append(st)
        return out

    def generic_visit(self, node):
        super().generic_visit(node)
        for fld in ('body', 'orelse', 'finalbody'):
            b = getattr(node, fld, None)
            if isinstance(b, list) and b and isinstance(b[0], ast.stmt):
                setattr(node, fld, self._flat(b))
        return node


TRANSFORMS = {'unparse': None, 'logging': Logging, 'logmsg': LogMsg, 'ifelse': IfElse, 'augassign': AugAssign, 'yoda': Yoda, 'rename': Rename, 'noelse': NoElse, 'tempreturn': TempReturn}


def main(argv):
    names = [a for a in argv[1:] if not a.startswith('--')] or list(TRANSFORMS)
    for a in list(names):
        if a.startswith('rename1'):
            parts = a.split(':')
            rename_one(int(parts[2]) if len(parts) > 2 else 30, int(parts[1]) if len(parts) > 1 else 1)
            names.remove(a)
    if not names and any(a.startswith('rename1') for a in argv[1:]):
        return
    props = [a[2:].upper() for a in argv[1:] if a.startswith('--c')] or ALL
    base = '/dev/shm' if os.path.isdir('/dev/shm') else None
    for name in names:
        scratch = tempfile.mkdtemp(prefix='benign_%s_' % name, dir=base)
        try:
            repo = os.path.join(scratch, 'repo')
            shutil.copytree('/repo/src', os.path.join(repo, 'src'))
            n_files = 0
            for root, _, files in os.walk(os.path.join(repo, 'src', 'nfc')):
                for fn in files:
                    if not fn.endswith('.py'):
                        continue
                    p = os.path.join(root, fn)
                    src = open(p).read()
                    tree = ast.parse(src)
                    tr = TRANSFORMS[name]
                    if tr is not None:
                        if name in ('logging', 'logmsg') and 'log = logging.getLogger' not in src:
                            continue
                        tree = ast.fix_missing_locations(tr().visit(tree))
                    out = ast.unparse(tree)
                    compile(out, p, 'exec')
                    open(p, 'w').write(out + '\n')
                    n_files += 1
            evdir = os.path.join(scratch, 'ev')
            os.makedirs(evdir)
            env = dict(os.environ, NFCSA_REPO=repo, NFCSA_EVIDENCE_DIR=evdir)
            bad = []
            for prop in props:
                r = subprocess.run([os.path.join(HERE, 'check.py'), prop], cwd=HERE, env=env, stdout=subprocess.PIPE, stderr=subprocess.STDOUT, text=True)
                if r.returncode != 0:
                    lines = [l.strip() for l in r.stdout.splitlines() if (' C%s-R' % prop[1:]) in l or 'ANALYSIS-ERROR' in l]
                    bad.append((prop, r.returncode, lines))
            print('== %s: %d files rewritten, %d of %d checks alarmed' % (name, n_files, len(bad), len(props)))
            for prop, rc, lines in bad:
                print('   %s exit=%d (%d reports)' % (prop, rc, len(lines)))
                for l in lines[:int(os.environ.get('BENIGN_SHOW', '4'))]:
                    print('        ' + l[:230])
        finally:
            shutil.rmtree(scratch, ignore_errors=True)


if __name__ == '__main__':
    main(sys.argv)
