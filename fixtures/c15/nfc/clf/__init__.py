# canary fixture for C15 (never executed)
import threading


class GoodFrontend(object):
    def __init__(self):
        self.device = None
        self.lock = threading.Lock()

    def close(self):
        with self.lock:
            if self.device is not None:
                self.device.close()
                self.device = None

    def sense(self, target):
        def sense_tta(target):
            return self.device.sense_tta(target)

        with self.lock:
            if self.device is None:
                raise IOError("no device")
            self.device.mute()
            return sense_tta(target)

    def exchange(self, data):
        with self.lock:
            if self.device is None:
                raise IOError("no device")
            exchange = self.device.send_cmd_recv_rsp
            return exchange(data)


class BadFrontend(object):
    def __init__(self):
        self.device = None
        self.lock = threading.RLock()           # R5: not a plain Lock

    def close(self):
        self.device = None                       # R3: unlocked store

    def beep(self):
        self.device.turn_on_led_and_buzzer()     # R1: unlocked driver call

    def sense(self, target):
        with self.lock:
            self.device.mute()                   # R2: no None test in the region
            return self.exchange(target)         # R5: re-entry

    def exchange(self, data):
        with self.lock:
            if self.device is None:
                raise IOError("no device")
            return self.device.send_cmd_recv_rsp(data)


def helper(clf):
    return clf.device.sense_tta(None)            # R4: foreign driver call
